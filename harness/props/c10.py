"""C10 — a plugin only affects documents that use its syntax.

Decided by: Lean theorem `scan_irrelevant_rule` (for ANY subject and rule table: inserting, anywhere, a rule one
of whose *needed* characters is absent from the subject leaves every scanner result unchanged), from
`no_match_without_needed`, `needs_sound`, `m_sound`; the needed characters are COMPUTED from the regenerated
regex of each plugin rule (never written down) and the obligation `plugins_have_triggers` checks that every
plugin rule has one.  What is not a theorem (tested by the differential oracle on the implementation):
handler replacements / hooks being inert (spoiler's block_quote, fenced directive's fenced_code, task_lists
hook, abbr's process_text), and that child sources only contain characters of the parent."""
import os, re, json
import common, gen, configs

LEVEL = "proof"
THEOREMS = ["Mistune.needs_sound", "Mistune.no_match_without_needed", "Mistune.scan_irrelevant_rule",
            "Mistune.plugins_have_triggers", "Mistune.m_sound",
            # lifted to the CONCRETE inline parser model: every source the inline parser is ever run on while parsing src (children of emphasis / links / plugin spans, the
            # speculative calls of precedence_scan) contains only characters of src, so adding one inline rule that needs an absent character changes neither tokens nor errors
            # (any env, any ch-free source; side conditions decidable on regenerated data; every configuration, abbr included); instances: core vs each only-<inline plugin> configuration
            "Mistune.Model.Inl.recAt_agree", "Mistune.Model.Inl.inlineParse_irrelevant_rule", "Mistune.Model.Inl.strikethrough_irrelevant", "Mistune.Model.Inl.mark_irrelevant", "Mistune.Model.Inl.insert_irrelevant",
            "Mistune.Model.Inl.superscript_irrelevant", "Mistune.Model.Inl.subscript_irrelevant", "Mistune.Model.Inl.url_link_irrelevant", "Mistune.Model.Inl.inline_spoiler_irrelevant", "Mistune.Model.Inl.ruby_irrelevant", "Mistune.Model.Inl.parseMethod_x"]

# triggers of behaviour that is not a scanner rule (handler replacements / hooks); rule triggers are computed in Lean
EXTRA_TRIGGERS = {"task_lists": "[", "spoiler": "!", "abbr": "*", "speedup": "", "fenced": "{", "rst": "."}


def plugin_triggers():
    """plugin -> set of characters; a document containing none of them must be unaffected"""
    d = common.Driver()
    names = [p for p in configs.PLUGINS if p != "speedup"]
    outs = d.batch([("cfg_needs", "only-" + p) for p in names])
    trig, per_rule = {}, {}
    for p, o in zip(names, outs):
        rules = {}
        for item in o.split(";"):
            if not item:
                continue
            rn, chars = item.split(":")
            rules[rn] = [chr(int(c)) for c in chars.split(",") if c]
        per_rule[p] = rules
        # one needed character per rule is enough for the theorem; removing ALL needed characters of all rules is the
        # property's own (weaker) hypothesis "contains none of the plugin's trigger characters"
        chars = set(EXTRA_TRIGGERS.get(p, ""))
        for rn, cs in rules.items():
            chars |= set(c for c in cs if c not in "\n ")
        trig[p] = chars
    return trig, per_rule


_SWEEP, _SWEEP_AT = [], [0]


def _sweep():
    if not _SWEEP:
        _SWEEP.extend(gen.slot_sweep())
    return _SWEEP


def strip_chars(doc, chars):
    return "".join(c for c in doc if c not in chars)


def oracle(ctx, trig, n_docs, per_rule={}):
    import mistune
    from mistune.directives import FencedDirective, RSTDirective, Admonition, TableOfContents, Image, Figure, Include
    n = 0
    plugins = sorted(trig)
    for _ in range(n_docs):
        P = ctx.rng.choice(plugins + ["fenced", "rst", "speedup"]) if ctx.rng.random() < 0.9 else "speedup"
        others = [p for p in configs.PLUGINS if p != P]
        base = ctx.rng.sample(others, ctx.rng.randint(0, len(others)))
        pos = ctx.rng.randint(0, len(base))
        if P == "speedup":
            # speedup has no trigger characters at all; any position, except before url / spoiler (C09: registered before them it shadows their start characters on the unchanged tree)
            late = [i for i, p in enumerate(base) if p in ("url", "spoiler")]
            if late:
                pos = max(pos, late[-1] + 1)
        hw = ctx.rng.random() < 0.25
        esc = ctx.rng.random() < 0.5

        def obj(name):
            if name == "fenced":
                return FencedDirective([Admonition(), TableOfContents(), Image(), Figure(), Include()])
            if name == "rst":
                return RSTDirective([Admonition(), TableOfContents(), Image(), Figure(), Include()])
            return name
        withp = base[:pos] + [P] + base[pos:]
        if P in per_rule and ctx.rng.random() < 0.7:
            # the theorem needs only ONE needed character per rule to be absent: remove a random hitting set
            chars = set(EXTRA_TRIGGERS.get(P, ""))
            for rn, cs in per_rule[P].items():
                cand = [c for c in cs if c not in "\n "]
                if cand:
                    chars.add(ctx.rng.choice(cand))
        else:
            chars = trig.get(P) or set(EXTRA_TRIGGERS.get(P, ""))
        if P == "speedup" and ctx.rng.random() < 0.7:
            # speedup has no trigger characters: the documents C09 uses for its fast paths belong here too (line ends with blanks / tabs,
            # abbreviation keys that the text rule cuts into pieces, URLs, tables after plain lines)
            import importlib
            doc = importlib.import_module("props.c09").docs(ctx, 1)[0]
            import re as _re
            keys = _re.findall(r"^ {0,3}\*\[([^\]\n]+)\]:", doc, _re.M)
            if any(a != b and b.startswith(a) and keys.index(b) < keys.index(a) for a in keys for b in keys):
                doc = "plain words\n"        # (the abbr prefix-key finding is C09's known finding; not re-reported here)
        else:
            rr = ctx.rng.random()
            if rr < 0.25:
                # the systematic template documents (every template with every filler of one slot), walked through in order across the run
                sweep = _sweep()
                _SWEEP_AT[0] = (_SWEEP_AT[0] + 1) % len(sweep)
                raw = sweep[(_SWEEP_AT[0] * 7919 + ctx.seed) % len(sweep)]
                if len(raw) > 2000:
                    raw = gen.md_any(ctx.rng, 8)
            else:
                raw = gen.md_nested(ctx.rng) if rr < 0.45 else gen.md_any(ctx.rng, 8)
            if P == "spoiler" and ctx.rng.random() < 0.5:
                # spoiler REPLACES the block-quote parser: quote-shaped documents without "!" (one needed character of each of its rules) must come out as from the core parser
                chars = {"!"}
                qt = [t for t in gen.SLOT_TEMPLATES if t.startswith(">") or "\n>" in t or t.startswith("- >")]
                raw = gen.fill(ctx.rng, ctx.rng.choice(qt)) if ctx.rng.random() < 0.6 else "".join(ctx.rng.choice(["> ", ">", "> > ", "- > ", ">\t"]) + ctx.rng.choice(["text", "```", "~~~", "", "    code", "- item", "<pre>", "<?php", "# h", "***", "a | b", "", ""]) + "\n" for _ in range(ctx.rng.randint(1, 7)))
                if ctx.rng.random() < 0.5:
                    raw += ctx.rng.choice([">\n", ">\n>\n", "\n", ">\n\nafter\n", "> \n>  \n"])
                else:
                    # what stands directly around the quote, without blank lines: a paragraph in front of it, and behind it every kind of line that ends
                    # a quote -- including list markers that may NOT interrupt a paragraph ("2. two", an empty bullet): the block that ends the quote is
                    # parsed during extraction, by the core parser and by the plugin's copy of it
                    if ctx.rng.random() < 0.6:
                        raw = ctx.rng.choice(["intro\n", "intro words\nmore\n", "- item\n", "# h\n"]) + raw
                    raw += ctx.rng.choice(["2. two", "7) seven", "-", "+", "*", "1. one", "- item", "    code", "===", "---", "text", "[x]: /u", "<div>", "```\ncode\n```", "# h", "10. ten\n11. eleven", "* * *", "-   \n- b"]) + "\n"
                    if ctx.rng.random() < 0.5:
                        raw += ctx.rng.choice(["tail\n", "\ntail\n", "> again\n"])
            doc = strip_chars(raw, chars)
        if P == "rst":
            doc = doc.replace("..", "")
        try:
            a = mistune.create_markdown(escape=esc, hard_wrap=hw, plugins=[obj(x) for x in base] or None)
            b = mistune.create_markdown(escape=esc, hard_wrap=hw, plugins=[obj(x) for x in withp])
        except Exception as e:
            ctx.fail("construct", "constructing with %s raised %r" % (withp, e), {"plugins": withp})
            continue
        n += 1
        try:
            x = a(doc)
        except RecursionError:
            continue
        except Exception as e:
            x = ("EXC", type(e).__name__)
        try:
            y = b(doc)
        except RecursionError:
            continue
        except Exception as e:
            y = ("EXC", type(e).__name__)
        if x != y:
            ctx.fail("plugin-affects-trigger-free:%s" % P,
                     "enabling %s (on top of %s) changes the output of a document without its trigger characters %r: %r" % (P, base, "".join(sorted(chars)), doc),
                     {"plugin": P, "base": base, "position": pos, "hard_wrap": hw, "escape": esc, "doc": doc, "without": x, "with": y})
    return n


def replaced_handler_part(ctx):
    """Deterministic: plugins that REPLACE a core handler (spoiler: block_quote) on the documents where the replaced handler's special cases live --
    quote ladders of every depth up to beyond the nesting limit ending in every kind of opener, with both values of the limit -- none of them
    contains the plugin's trigger character."""
    import mistune
    n = 0
    enders = ["- item", "1. x", "> q", "text", "-", "2. two", "```\ncode\n```", "    code", "# h", "* * *", "- a\n  - b", "+ x\n> y"]
    marks = [["> "], [">"], ["> ", "- "], ["- ", "> "], ["1. ", "> "]]
    for limit in (6, 3):
        for mk in marks:
            for k in range(1, limit + 3):
                pre = "".join(mk[i % len(mk)] for i in range(k))
                for e in enders:
                    lines = e.split("\n")
                    doc = pre + lines[0] + "\n" + "".join(" " * len(pre) + l + "\n" if not pre.startswith(">") else pre + l + "\n" for l in lines[1:])
                    if "!" in doc:
                        continue
                    outs = []
                    for plugins in (None, ["spoiler"]):
                        md = mistune.create_markdown(plugins=plugins)
                        md.block.max_nested_level = limit
                        try:
                            outs.append(md(doc))
                        except RecursionError:
                            outs.append(None)
                        except Exception as ex:
                            outs.append(("EXC", type(ex).__name__))
                    n += 1
                    if None not in outs and outs[0] != outs[1]:
                        ctx.fail("plugin-affects-trigger-free:spoiler", "enabling spoiler changes the output of a document without '!' (nesting limit %d): %r" % (limit, doc),
                                 {"plugin": "spoiler", "base": [], "position": 0, "hard_wrap": False, "escape": True, "doc": doc, "max_nested": limit, "without": outs[0], "with": outs[1]})
    return n


BASELINE = os.path.join(os.path.dirname(os.path.dirname(os.path.abspath(__file__))), "baseline", "c10_triggers.json")


def load_baseline():
    try:
        return json.load(open(BASELINE, encoding="utf-8"))
    except Exception:
        return None


def sampler_part(ctx, baseline, n_per_rule):
    """Strings drawn FROM the regular expressions of the rules each plugin registers now (and near misses: one character dropped), placed in a
    line; kept when the line lacks a needed character of every rule the plugin had on the pinned tree (`baseline/c10_triggers.json`, the
    documented syntax) and its hook triggers — i.e. when the document does not use the plugin's syntax; then converted with and without the
    plugin.  On an unchanged tree the theorem makes this vacuous for exact samples (a match contains every needed character); it is the
    directed search for a plugin whose syntax was widened."""
    import mistune, rxsample
    core = mistune.create_markdown()
    n = 0
    for P in [p for p in configs.PLUGINS if p != "speedup"]:
        try:
            withp = mistune.create_markdown(plugins=[P])
        except Exception:
            continue
        pats = []
        for side in ("inline", "block"):
            a, b = getattr(core, side).specification, getattr(withp, side).specification
            pats += [(k, v) for k, v in b.items() if a.get(k) != v]
        base_rules = (baseline or {}).get(P, {})
        extra = set(EXTRA_TRIGGERS.get(P, ""))
        for rn, pat in pats:
            ss = rxsample.samples(pat, ctx.rng, n_per_rule, re.M)
            ss += [x[:i] + x[i + 1:] for x in ss[:n_per_rule // 2] for i in [ctx.rng.randrange(len(x))] if len(x) > 1]
            for smp in ss:
                doc = ctx.rng.choice(["%s\n", "word %s word\n", "see %s.\n", "- %s\n", "> a %s\n", "日本の%sです\n", "# %s\n", "a\n%s\nb\n"]) % smp
                if any(c in doc for c in extra):
                    continue
                if not all(any(c not in doc for c in cs if c not in "\n ") for cs in base_rules.values() if [c for c in cs if c not in "\n "]):
                    continue         # the line uses the plugin's documented syntax characters
                n += 1
                try:
                    x, y = core(doc), withp(doc)
                except Exception as e:
                    continue
                if x != y:
                    ctx.fail("plugin-affects-trigger-free:%s" % P, "enabling %s changes the output of %r, which has none of the characters its syntax needs (rule %s now matches)" % (P, doc, rn),
                             {"plugin": P, "base": [], "position": 0, "hard_wrap": False, "escape": True, "doc": doc, "without": x, "with": y})
    return n


def api_part(ctx):
    """speedup has no trigger characters: through mistune.markdown() and its argument-keyed converter cache, adding it must change nothing either (shared with C09)"""
    import importlib
    return importlib.import_module("props.c09").api_part(ctx)


def run(ctx):
    ctx.broken += common.proof_stage(ctx, THEOREMS)
    # the concrete Lean parser model transcribes the plugins (speedup included): full-tree correspondence on their configurations
    common.plugin_model_tie(ctx, 200 if ctx.quick() else 2500, None)
    trig, per_rule = plugin_triggers()
    for p, rules in per_rule.items():
        for rn, cs in rules.items():
            if not cs and rn not in ("text", "paragraph"):
                ctx.broken.append("plugin %s rule %s has no needed character (trigger set not computable)" % (p, rn))
    baseline = load_baseline()
    if baseline is None:
        ctx.broken.append("baseline/c10_triggers.json (needed characters of the plugin rules of the pinned tree) is missing")
    else:
        now = {p: {rn: sorted(cs) for rn, cs in rules.items()} for p, rules in per_rule.items()}
        for p in sorted(set(now) | set(baseline)):
            if now.get(p) != baseline.get(p):
                ctx.broken.append("the characters plugin %s needs changed: pinned tree %s, now %s (the documented trigger set no longer covers its rules)" % (p, baseline.get(p), now.get(p)))
    n = oracle(ctx, trig, 6000 if ctx.quick() else 80000, per_rule)
    n += sampler_part(ctx, baseline, 30 if ctx.quick() else 400)
    n += api_part(ctx)
    n += replaced_handler_part(ctx)
    if ctx.broken and not ctx.failures:
        ctx.notes.append("search mode entered")
        n += oracle(ctx, trig, 40000, per_rule)
    ctx.cov.update({
        "evaluations": n, "distinct_nontrivial": n,
        "rule": "for a random plugin P (or directive syntax), a random subset/order of the other plugins and a random insertion position: a seeded Markdown document with "
                "P's trigger characters removed (computed by the Lean analysis `needs` on P's regenerated regexes, plus the documented hook triggers) is converted with and "
                "without P; every case has its own configuration and document",
        "samples": [{"plugin": p, "triggers": "".join(sorted(trig[p]))} for p in sorted(trig)][:6],
        "computed_triggers": {p: "".join(sorted(c)) for p, c in trig.items()},
    })
    ctx.assumptions += ["inertness of replaced handlers / hooks without their trigger (spoiler, fenced directive, task_lists, abbr) is tested, not proved",
                        "children sources contain only characters of the parent plus space/newline (tested)"]


def replay(ctx, path):
    import json
    r = json.load(open(path))["replay"]
    print(json.dumps(r, indent=1)[:2000])
    return 1
