"""C07 — conversion work grows at most quadratically with input size.

The family (machine-checked proof) decides the LOGIC part and cannot exhibit CPU time, so the check is partial and
claimed under `other`:
 * proved (Lean): each scanner loop runs at most |src| iterations (`blockLoop_iterations`, from the progress
   theorems); the matcher is sound; no regex of the working tree has a nullable repeat body (kernel-decided);
 * kernel-decided obligation `allRx_polyOk`: every regex regenerated from the working tree is in the syntactic
   cheap class `Rx.polySafe` (big repeats have single-character bodies or first-character-disjoint alternatives; no
   two adjacent big repeats over overlapping classes) or is structurally one of the accepted exceptions of the
   pinned tree — a changed or new regex outside the class breaks the obligation;
 * measured (labelled as measurement): CPU time of the implementation on pumped inputs prefix + unit^n + suffix,
   in isolated worker processes; reported only after re-measurement alone."""
import os, sys, time, json, math, itertools, subprocess
import common, gen, configs, worker

LEVEL = "other"
THEOREMS = ["Mistune.blockLoop_iterations", "Mistune.blockLoop_total", "Mistune.inlineLoop_total", "Mistune.m_sound",
            "Mistune.allCfgs_repBodies", "Mistune.namedRx_repBodies", "Mistune.allRx_polyOk"]

UNIT_TOKENS = ["*", "**", "_", "__", "`", "``", "[", "]", "(", ")", "![", "](", "<", ">", "\\", "\\*", "\\!", "&", "&amp;", ";", "~", "~~", "^", "==", "$", "!", ">!", "|", ":", "-", "=", "+", "#",
               " ", "  ", "\t", "\n", "\n\n", "a", "a ", " a", "<a", "<a>", "</a>", "<!--", "-->", "<?", "http://", "a@b", "\"", "'", "[^", "]:", "*[", "1.", "- ", "> ", "    ", "{", "}", "..", "::",
               "\\\\", "&#", "x;", "<a b=\"", "' ", "%", "/", ".", "_a", "a_", "é", "\x0b", " \n", "\\\n", "|-", "-|"]
PREFIXES = ["", "[", "[a](", "[a](/u \"", "[a](/u '", "[a](<", "<a ", "<a b=\"", "`", "*", "![", "$", "<!--", "[^", "| a |\n|", "a\n: ", "```\n", "    ", "> ", "- ", "[x]: ", "[x]: /u \"",
            "<div", "<?", "*[", "~~", ".. note::\n\n   ", "```{note}\n", "a | b\n-|-\n", "**", "_", "<http://", "http://", "a@", "[a][", "\\"]
SUFFIXES = ["", "]", ")", "\")", "'", ">", "`", "*", "-->", "\n", "\n\n", "|", "x", "](u)", "?>", "]]>", "$", "\n```\n", "</a>", "**"]


def families(ctx, k):
    fams = []
    # systematic: every single token as unit with empty prefix/suffix, and with each prefix
    for u in UNIT_TOKENS:
        fams.append(("", u, ""))
    for _ in range(k):
        u = ctx.rng.choice(UNIT_TOKENS) + (ctx.rng.choice(UNIT_TOKENS) if ctx.rng.random() < 0.6 else "")
        fams.append((ctx.rng.choice(PREFIXES), u, ctx.rng.choice(SUFFIXES)))
    return fams


CFGS = [configs.C("core"), configs.C("all", plugins=configs.PLUGINS), configs.C("all-fenced", plugins=configs.PLUGINS, directives="fenced"),
        configs.C("all-rst", plugins=configs.PLUGINS, directives="rst")]


def build(f, n):
    p, u, s = f
    return p + u * n + s


def screen(ctx, fams, sizes, limit):
    """parallel screening pass (noisy under load): returns per family the CPU times per size, or 'timeout'"""
    os.environ["MISTUNE_SRC"] = common.repo_src()
    tasks, meta = [], []
    for fi, f in enumerate(fams):
        c = CFGS[fi % len(CFGS)] if fi >= len(UNIT_TOKENS) else CFGS[1]
        if "```{" in f[0] or ":::{" in f[0]:
            c = CFGS[2]
        elif f[0].startswith(".. "):
            c = CFGS[3]
        for n in sizes:
            doc = build(f, n)
            tasks.append((c, doc, limit)); meta.append((fi, n, c))
    res = worker.run_all(tasks, workers=12)
    table = {}
    for (fi, n, c), r in zip(meta, res):
        table.setdefault(fi, {"cfg": c, "t": {}})
        if r["status"] == "ok":
            table[fi]["t"][n] = r["cpu"]
        elif r["status"] == "timeout":
            table[fi]["t"][n] = "timeout"
        else:
            table[fi]["t"][n] = "error"        # C01's business
    return table


def slope(ns, ts):
    xs = [math.log(n) for n in ns]; ys = [math.log(max(t, 1e-5)) for t in ts]
    mx, my = sum(xs) / len(xs), sum(ys) / len(ys)
    return sum((x - mx) * (y - my) for x, y in zip(xs, ys)) / sum((x - mx) ** 2 for x in xs)


def remeasure_alone(f, c, sizes, limit):
    """one family, sequentially, in a fresh interpreter per size, best of 2"""
    out = {}
    for n in sizes:
        best = None
        for _ in range(2):
            r = worker.run_all([(c, build(f, n), limit)], workers=1)[0]
            if r["status"] != "ok":
                best = r["status"]; break
            best = r["cpu"] if best is None else min(best, r["cpu"])
        out[n] = best
        if best in ("timeout",):
            break
    return out


def oracle(ctx, fams, quick):
    sizes = [40, 400, 1600] if quick else [40, 500, 2000, 4000]
    limit = 20.0
    table = screen(ctx, fams, sizes, limit)
    suspects = []
    for fi, row in table.items():
        t = row["t"]
        vals = [t.get(n) for n in sizes]
        if any(v == "timeout" for v in vals):
            suspects.append(fi); continue
        if any(v == "error" or v is None for v in vals):
            continue
        big, mid = vals[-1], vals[-2]
        ratio = big / max(mid, 1e-4)
        expect = (sizes[-1] / sizes[-2]) ** 2
        if big > 0.4 and ratio > 1.9 * expect:
            suspects.append(fi)
        elif big > 8.0:
            suspects.append(fi)
    ctx.cov["screened_families"] = len(fams)
    ctx.cov["suspects_remeasured"] = len(suspects)
    worst = sorted(((row["t"].get(sizes[-1]) if isinstance(row["t"].get(sizes[-1]), float) else 99.0), fi) for fi, row in table.items())[-3:]
    ctx.cov["slowest_families"] = [{"family": fams[fi], "cpu_s_at_n=%d" % sizes[-1]: round(t, 3)} for t, fi in worst]
    for fi in suspects[:12]:
        f, c = fams[fi], table[fi]["cfg"]
        ms = [100, 200, 400, 800, 1600] if quick else [250, 500, 1000, 2000, 4000]
        alone = remeasure_alone(f, c, ms, 60.0)
        pts = [(n, v) for n, v in alone.items() if isinstance(v, float)]
        to = [n for n, v in alone.items() if v == "timeout"]
        rep = {"prefix": f[0], "unit": f[1], "suffix": f[2], "config": c, "cpu_s": {str(k): v for k, v in alone.items()}}
        if to:
            ctx.fail("time:timeout", "pumped input prefix=%r unit=%r suffix=%r does not convert within 60 s at n=%d (%d characters) under %s" % (f[0], f[1], f[2], to[0], len(build(f, to[0])), c["name"]), rep)
            continue
        if len(pts) >= 4:
            big = [(n, v) for n, v in pts if v > 0.02] or pts
            if len(big) >= 3:
                sl = slope([n for n, _ in big], [v for _, v in big])
                if sl > 2.35 and big[-1][1] > 0.5:
                    ctx.fail("time:superquadratic", "pumped input prefix=%r unit=%r suffix=%r: CPU time grows with exponent %.2f (%s) under %s" % (f[0], f[1], f[2], sl, {n: round(v, 3) for n, v in pts}, c["name"]), rep)
                    continue
            if pts[-1][1] > 30.0:
                ctx.fail("time:too-slow", "pumped input prefix=%r unit=%r suffix=%r takes %.1f s for %d characters" % (f[0], f[1], f[2], pts[-1][1], len(build(f, pts[-1][0]))), rep)
    return len(fams) * len(sizes)


def expo_screen(ctx, quick):
    """Exponential behaviour shows at tiny sizes: the SYSTEMATIC product prefix x single-token unit x short suffix at n = 26 units with a 4 s limit
    (polynomial families take microseconds there; a regex with two ways to read a unit needs 2^26 steps).  Whatever times out is re-measured alone
    at n = 14..30 and reported when the time doubles per added unit."""
    sufs = ["", "x", "(", "\n"]
    prefs = PREFIXES if not quick else [p for p in PREFIXES if p in ("", "[", "[a](", "![a](", "[a](<", "[a](/u \"", "[x]: ", "<a ", "<a b=\"", "*", "`", "[a][", "<http://", "$", "[^", "\\")] + ["![a]("]
    fams = [(p, u, x) for p in prefs for u in UNIT_TOKENS for x in sufs]
    # an opening marker, then a run of that marker ESCAPED (and of other escapes), with and without a closer: a body loop that can read `\m` as
    # one unit or as two characters is harmless only as long as any occurrence of m may close the span
    for mk in ["^", "~", "*", "_", "`", "$", "==", "~~", "^^", ">!", "[", "![", "<", "|", "**", "__", "[^"]:
        for pre in ("x" + mk, mk, "a " + mk):
            for u in ("\\" + mk[0], "\\" + mk[0] + "a", "\\\\", "\\" + mk[0] + " "):
                for x in (" y", "", mk, "\n"):
                    fams.append((pre, u, x))
    os.environ["MISTUNE_SRC"] = common.repo_src()
    n0 = 26
    res = worker.run_all([(CFGS[1], build(f, n0), 4.0) for f in fams], workers=12)
    sus = [f for f, r in zip(fams, res) if r["status"] == "timeout"]
    ctx.cov["expo_families_screened"] = len(fams)
    ctx.cov["expo_suspects"] = len(sus)
    for f in sus[:8]:
        alone = remeasure_alone(f, CFGS[1], [14, 18, 22, 26, 30], 30.0)
        pts = [(n, v) for n, v in sorted(alone.items()) if isinstance(v, float) and v > 0.005]
        to = [n for n, v in alone.items() if v == "timeout"]
        growth = [b[1] / a[1] for a, b in zip(pts, pts[1:])]
        if to or (len(growth) >= 2 and min(growth[-2:]) > 6.0):
            ctx.fail("time:exponential", "pumped input prefix=%r unit=%r suffix=%r: CPU time multiplies per four added units (%s), %s under %s" % (f[0], f[1], f[2], {n: round(v, 3) for n, v in pts}, "timeout at n=%s" % to if to else "no timeout yet", CFGS[1]["name"]),
                     {"prefix": f[0], "unit": f[1], "suffix": f[2], "config": CFGS[1], "cpu_s": {str(k): v for k, v in alone.items()}})
    return len(fams)


# ---------------------------------------------------------------- deterministic work counter
OPENERS = [("[![", "](u)](u)"), ("[a ![b ", "](u)](v)"), ("*", "*"), ("**", "**"), ("_", "_"), ("[", "](u)"), ("![", "](u)"), ("<a>", "</a>"), ("[</a>", "](u)"), ("`", "`"), ("~~", "~~"),
           ("==", "=="), ("^", "^"), ("[^", "]"), ("<b>", "</b>"), ("*_", "_*"), ("***", "***"), ("[*", "*](u)"), ("<", ">"), ("\\", ""), ("&", ";"), ("$", "$"), (">!", "!<"), ("[", "]"), ("(", ")"),
           ("[</a>", "]"), ("<a ", ">"), ("[a](", ")"), ("*[", "]"), ("{", "}")]
PAYLOADS = ["x", "*a ", "_a ", "`", "[", "<a>", "a ", "\\", "&", "![", "~~a ", "](", "<", "\n", "<?", "<!--", "`a", "<a ", "http://a.b ", "<x@y.z ", "&#", "[^"]
LINE_UNITS = [".. toc::\n", "```{toc}\n```\n", "[^1]: n\n", "*[A]: t\n", "[x]: u\n", "# h\n", "| a |\n", ": d\n", "term\n", "- [ ] k\n", ".. note:: t\n", "> q\n", "- i\n", "[^1] ", "A ", "[x] "]
MIDS = ["", "x", "\n", "\n# ", " ", "\n\n"]


LINE_PREFIXES = ["", "> x\n", "- a\n", "- - - a\n      ~~~\n      x\n      ~~~\n      a\n", "- - a\n    > q\n", "a | b\n-|-\n", "term\n", "> - a\n", "1. a\n\n   b\n"]
LINE_RUNS = [">\n", "> a\n", "b\n", "> a\nb\n", "- a\n", "  b\n", "\n", "> \n", ">   \n", "| a |\n", "a | b\n", ": d\n", "    c\n", "# h\n", "***\n", "[x]: u\n", "- a\nb\n", ">\n\n", "  \n", "", ""]


def build3(f, n):
    if f[0].startswith("\x00"):
        # a fixed prefix, then two runs of whole lines growing together
        return f[0][1:] + f[1] * n + f[2] * n
    a, b, c = f
    if b in MIDS:
        return a * n + b + c * n          # two-sided pump around a fixed middle
    return a * n + b * n + c * n          # three runs growing together


def count_families(ctx, quick):
    fams = []
    for o, c in OPENERS:
        for pay in PAYLOADS:
            fams.append((o, pay, c))
    for l in LINE_UNITS:
        for mid in ("\n# ", "\n", ""):
            for o in [x for x, _ in OPENERS[:14]] + ["a ", "*a "]:
                fams.append((l, mid, o))
    for _ in range(300 if quick else 6000):
        fams.append((ctx.rng.choice(UNIT_TOKENS + LINE_UNITS), ctx.rng.choice(MIDS + PAYLOADS), ctx.rng.choice(UNIT_TOKENS + [c for _, c in OPENERS])))
    return fams


def count_oracle(ctx, quick):
    """Handler invocations (every call of a block or inline rule handler, nested inline parses included) are deterministic:
    on the pinned tree they grow linearly on every family below.  Growth by more than 5.5x per doubling over two
    consecutive doublings (cubic is 8x), or a tiny input that does not finish, is re-scanning."""
    os.environ["MISTUNE_SRC"] = common.repo_src()
    fams = count_families(ctx, quick)
    sizes = [6, 12, 24, 48]
    cfg = CFGS[3]
    tasks = [(cfg, build3(f, n), 6.0) for f in fams for n in sizes]
    res = worker.run_all(tasks, workers=14, fn=worker.count_convert)
    worst = 0.0
    timed = []
    for i, f in enumerate(fams):
        rs = res[i * 4:(i + 1) * 4]
        cs = [r.get("calls") if r["status"] == "ok" else r["status"] for r in rs]
        rep = {"prefix": "", "unit": "", "suffix": "", "family3": list(f), "config": cfg, "handler_calls": dict(zip(map(str, sizes), cs)), "doc_n12": build3(f, 12)}
        if "timeout" in cs:
            k = cs.index("timeout")
            ctx.fail("work:tiny-input-timeout", "the %d-character input %r (family %r, n=%d) does not convert within 6 s under %s; handler calls at smaller n: %s" % (len(build3(f, sizes[k])), build3(f, sizes[k])[:60], f, sizes[k], cfg["name"], cs), rep)
            continue
        if any(not isinstance(c, int) for c in cs):
            continue
        r1, r2 = cs[2] / max(cs[1], 1), cs[3] / max(cs[2], 1)
        worst = max(worst, min(r1, r2))
        if r1 > 5.5 and r2 > 5.5 and cs[3] > 3000:
            ctx.fail("work:superquadratic-handler-calls", "family %r: rule-handler invocations grow %.1fx and %.1fx per doubling of n (%s) under %s: the same text is scanned again and again" % (f, r1, r2, dict(zip(sizes, cs)), cfg["name"]), rep)
        elif r1 > 3.0 and r2 > 3.0 and cs[3] > 1000 and len(timed) < 6:
            # quadratically many handler calls, each of which may scan O(n) characters: measure the time, alone
            timed.append(f)
            ms = [100, 200, 400, 800, 1600]
            alone = {}
            for n in ms:
                r = worker.run_all([(cfg, build3(f, n), 60.0)], workers=1)[0]
                alone[n] = r["cpu"] if r["status"] == "ok" else r["status"]
                if r["status"] != "ok":
                    break
            rep["cpu_s"] = {str(k): v for k, v in alone.items()}
            pts = [(n, v) for n, v in alone.items() if isinstance(v, float)]
            if "timeout" in alone.values():
                k = [n for n, v in alone.items() if v == "timeout"][0]
                ctx.fail("time:timeout", "family %r (handler calls %s) does not convert within 60 s at n=%d (%d characters) under %s" % (f, dict(zip(sizes, cs)), k, len(build3(f, k)), cfg["name"]), rep)
            elif len(pts) >= 4:
                big = [(n, v) for n, v in pts if v > 0.02] or pts
                if len(big) >= 3:
                    sl = slope([n for n, _ in big], [v for _, v in big])
                    if sl > 2.35 and big[-1][1] > 0.5:
                        ctx.fail("time:superquadratic", "family %r: handler calls grow %.1fx per doubling and CPU time with exponent %.2f (%s) under %s" % (f, r2, sl, {n: round(v, 3) for n, v in pts}, cfg["name"]), rep)
    # the Markdown and RST renderers walk the tree themselves: nested constructs under those renderers, by time
    rfams = [(o, "x", c) for o, c in OPENERS] + [("> ", "x", ""), ("- ", "x", ""), ("1. ", "x", ""), ("> - ", "x", "")]
    rsizes = [6, 12, 24]
    for rc in (configs.C("markdown-core", renderer="markdown"), configs.C("rst-core", renderer="rst")):
        rtasks = [(rc, build3(f, n), 6.0) for f in rfams for n in rsizes]
        rres = worker.run_all(rtasks, workers=14)
        for i, f in enumerate(rfams):
            rs = rres[i * 3:(i + 1) * 3]
            ts = [r.get("cpu") if r["status"] == "ok" else r["status"] for r in rs]
            rep = {"prefix": "", "unit": "", "suffix": "", "family3": list(f), "config": rc, "cpu_s": dict(zip(map(str, rsizes), ts)), "doc_n12": build3(f, 12)}
            if "timeout" in ts:
                k = ts.index("timeout")
                ctx.fail("work:tiny-input-timeout:%s" % rc["renderer"], "the %d-character input %r (family %r, n=%d) does not convert within 6 s with the %s renderer" % (len(build3(f, rsizes[k])), build3(f, rsizes[k])[:60], f, rsizes[k], rc["renderer"]), rep)
            elif all(isinstance(t, float) for t in ts) and ts[2] > 1.0 and ts[2] > 20 * max(ts[1], 1e-4):
                ctx.fail("time:exponential:%s" % rc["renderer"], "family %r with the %s renderer: CPU time %s for n = %s" % (f, rc["renderer"], [round(t, 4) for t in ts], rsizes), rep)
        tasks += rtasks
    # three runs growing together, by time: work inside one handler call (candidate loops, re-scans) does not show in call counts
    tfams = [(o, pay, c) for o, c in OPENERS for pay in PAYLOADS if pay not in MIDS]
    # two different runs one after the other (n unclosed openers, then a run the search for their closers has to cross)
    two = PAYLOADS + ["\\\\", "**a ", "_a", "__a ", "~a ", "^a ", "==a ", "*", "\\*", "\\_", "|", "-", "a|", "$a ", ">!a "]
    tfams += [(p1, p2, "") for p1 in two for p2 in two if p1 != p2 and p2 not in MIDS]
    # whole lines: a fixed block-structure prefix (nested lists with a closed fence, a quote, a table head ...) followed by two runs of lines (empty quoted lines then
    # quoted / lazy pairs, lazy continuation lines after a nested item, ...)
    lfams = [("\x00" + pre, l1, l2) for pre in LINE_PREFIXES for l1 in LINE_RUNS for l2 in LINE_RUNS if l1 and l1 != l2]
    tfams += lfams if not quick else ctx.rng.sample(lfams, 500)
    tsizes = [100, 200, 400]
    ttasks = [(cfg, build3(f, n), 25.0) for f in tfams for n in tsizes]
    tres = worker.run_all(ttasks, workers=14)
    suspects = []
    for i, f in enumerate(tfams):
        rs = tres[i * 3:(i + 1) * 3]
        ts = [r.get("cpu") if r["status"] == "ok" else r["status"] for r in rs]
        if "timeout" in ts:
            suspects.append(f)
        elif all(isinstance(t, float) for t in ts) and ts[2] > 0.25 and ts[2] > 5.5 * max(ts[1], 1e-3):
            suspects.append(f)
    for f in suspects[:8]:
        alone = {}
        for n in [100, 200, 400, 800]:
            r = worker.run_all([(cfg, build3(f, n), 60.0)], workers=1)[0]
            alone[n] = r["cpu"] if r["status"] == "ok" else r["status"]
            if r["status"] != "ok":
                break
        rep = {"prefix": "", "unit": "", "suffix": "", "family3": list(f), "config": cfg, "cpu_s": {str(k): v for k, v in alone.items()}, "doc_n12": build3(f, 12)}
        pts = [(n, v) for n, v in alone.items() if isinstance(v, float)]
        if "timeout" in alone.values():
            k = [n for n, v in alone.items() if v == "timeout"][0]
            ctx.fail("time:timeout", "three-run family %r does not convert within 60 s at n=%d (%d characters) under %s" % (f, k, len(build3(f, k)), cfg["name"]), rep)
        elif len(pts) >= 4:
            big = [(n, v) for n, v in pts if v > 0.02] or pts
            if len(big) >= 3:
                sl = slope([n for n, _ in big], [v for _, v in big])
                if sl > 2.5 and big[-1][1] > 1.0:
                    ctx.fail("time:superquadratic", "three-run family %r: CPU time grows with exponent %.2f (%s) under %s" % (f, sl, {n: round(v, 3) for n, v in pts}, cfg["name"]), rep)
    tasks += ttasks
    # a raised nesting limit: hooks and renderers that walk the token tree must stay linear in the depth
    deep_cfg = configs.C("limit40-all", plugins=configs.PLUGINS, max_nested=40)
    dfams = [("- ", "[ ] x", ""), ("> ", "x", ""), ("1. ", "x", ""), ("- > ", "x", ""), ("- ", "- [x] t\n", ""), (">! ", "x", "")]
    dsizes = [8, 16, 32]
    for rcfg in (deep_cfg, dict(deep_cfg, name="limit40-ast", renderer="ast"), dict(deep_cfg, name="limit40-markdown", renderer="markdown", plugins=[])):
        dres = worker.run_all([(rcfg, f[0] * n + f[1], 8.0) for f in dfams for n in dsizes], workers=14)
        for i, f in enumerate(dfams):
            ts = [r.get("cpu") if r["status"] == "ok" else r["status"] for r in dres[i * 3:(i + 1) * 3]]
            rep = {"prefix": "", "unit": f[0], "suffix": f[1], "config": rcfg, "cpu_s": dict(zip(map(str, dsizes), ts))}
            if "timeout" in ts:
                k = dsizes[ts.index("timeout")]
                ctx.fail("work:tiny-input-timeout:deep-nesting", "%d nested containers %r (%d characters) do not convert within 8 s under %s (nesting limit 40)" % (k, f[0], len(f[0] * k + f[1]), rcfg["name"]), rep)
            elif all(isinstance(t, float) for t in ts) and ts[2] > 0.5 and ts[2] > 20 * max(ts[1], 1e-3):
                ctx.fail("time:exponential:deep-nesting", "nested containers %r under %s: CPU time %s for depth %s" % (f[0], rcfg["name"], [round(t, 4) for t in ts], dsizes), rep)
    ctx.cov["timed_three_run_families"] = len(tfams)
    ctx.cov["count_families"] = len(fams)
    ctx.cov["worst_handler_growth_per_doubling"] = round(worst, 2)
    return len(tasks)


# ---------------------------------------------------------------- indexed families: n DISTINCT definitions and n uses
INDEXED = [("*[a{i}Y]: x\n", "\n", "a[a[a[a["), ("*[k{i}]: x\n", "\n", "k{i} "), ("[^n{i}]: x\n\n", "\n", "[^n{i}] "), ("[l{i}]: /u\n", "\n", "[l{i}] [x][l{i}] "),
           ("# h{i}\n", "\n.. toc::\n", ""), ("t{i}\n: d{i}\n\n", "", ""), ("| a{i} | b |\n|---|---|\n| c | d |\n\n", "", ""), ("- [ ] i{i}\n", "", ""),
           ("*[a{i}]: x\n", "\n", "a{i}a "), ("[l{i}]: /u\n", "\n", "[l"), ("[^n{i}]: x\n\n", "\n", "[^n")]


def build_indexed(f, n):
    a, mid, b = f
    return "".join(a.replace("{i}", str(i)) for i in range(n)) + mid + "".join(b.replace("{i}", str(i)) for i in range(n))


def indexed_oracle(ctx, quick):
    """distinct keys cannot be pumped by repeating one unit: n definitions followed by n uses, measured alone"""
    os.environ["MISTUNE_SRC"] = common.repo_src()
    sizes = [75, 150, 300, 600] if quick else [100, 200, 400, 800, 1600]
    cfg = CFGS[3]
    n_eval = 0
    for f in INDEXED:
        alone = {}
        for n in sizes:
            r = worker.run_all([(cfg, build_indexed(f, n), 40.0)], workers=1)[0]
            n_eval += 1
            alone[n] = r["cpu"] if r["status"] == "ok" else r["status"]
            if r["status"] != "ok":
                break
        rep = {"prefix": "", "unit": "", "suffix": "", "indexed": list(f), "config": cfg, "cpu_s": {str(k): v for k, v in alone.items()}, "doc_n3": build_indexed(f, 3)}
        pts = [(n, v) for n, v in alone.items() if isinstance(v, float)]
        if "timeout" in alone.values():
            k = [n for n, v in alone.items() if v == "timeout"][0]
            ctx.fail("time:timeout:indexed:%s" % f[0].split("{")[0].strip(), "%d definitions %r and as many uses %r (%d characters) do not convert within 40 s under %s" % (k, f[0], f[2], len(build_indexed(f, k)), cfg["name"]), rep)
        elif len(pts) >= 4:
            big = [(n, v) for n, v in pts if v > 0.02] or pts
            if len(big) >= 3:
                sl = slope([n for n, _ in big], [v for _, v in big])
                if sl > 2.35 and big[-1][1] > 0.5:
                    ctx.fail("time:superquadratic:indexed:%s" % f[0].split("{")[0].strip(), "n definitions %r followed by n uses %r: CPU time grows with exponent %.2f (%s) under %s" % (f[0], f[2], sl, {n: round(v, 3) for n, v in pts}, cfg["name"]), rep)
    return n_eval


def include_timing(ctx):
    """files reached through the include directive are not normalised (no final newline is supplied): unclosed constructs at the end of
    an included file without a final line end, pumped"""
    import tempfile, shutil, subprocess, json
    tmp = tempfile.mkdtemp(prefix="verif-c07-")
    n_eval = 0
    try:
        heads = ["```{note} Title\n", "```{figure} p.png\n", "````{warning}\n", "```\n", "> ", "- ", "<div>\n", "<!--\n", "[x]: /u \"", "| a |\n|---|\n", "term\n: "]
        units = ["a\n\n", "a\n", "\n", ":k: v\n", "a\n\n\n"]
        script = ("import sys, time, signal; sys.path.insert(0, %r); import mistune\n"
                  "from mistune.directives import FencedDirective, RSTDirective, Include, Admonition, Figure, Image\n"
                  "md = mistune.create_markdown(plugins=['table', 'def_list', FencedDirective([Include(), Admonition(), Figure(), Image()])])\n"
                  "signal.alarm(25); t = time.process_time(); md.read(sys.argv[1]); print(time.process_time() - t)\n") % common.repo_src()
        jobs = []
        for h in heads:
            for u in units:
                for n in (12, 24, 48):
                    d = os.path.join(tmp, "c%d" % len(jobs))
                    os.makedirs(d)
                    with open(os.path.join(d, "inc.md"), "w", newline="") as f:
                        f.write(h + u * n + "x")
                    with open(os.path.join(d, "main.md"), "w", newline="") as f:
                        f.write("```{include} inc.md\n```\n")
                    jobs.append((h, u, n, subprocess.Popen([sys.executable, "-B", "-c", script, os.path.join(d, "main.md")], stdout=subprocess.PIPE, stderr=subprocess.PIPE, text=True)))
                    if len(jobs) % 14 == 0:
                        for j in jobs[-14:]:
                            j[3].wait()
        res = {}
        for h, u, n, pr in jobs:
            so, se = pr.communicate()
            n_eval += 1
            try:
                res[(h, u, n)] = float(so.strip().split("\n")[-1])
            except Exception:
                res[(h, u, n)] = "timeout" if pr.returncode not in (0, 1) else "error"
        for h in heads:
            for u in units:
                ts = [res[(h, u, n)] for n in (12, 24, 48)]
                rep = {"prefix": h, "unit": u, "suffix": "x", "config": "include", "cpu_s": {"12": ts[0], "24": ts[1], "48": ts[2]}, "included_file": h + u * 12 + "x"}
                if "timeout" in ts:
                    k = (12, 24, 48)[ts.index("timeout")]
                    ctx.fail("time:timeout:included-file", "an included file %r + %r * %d + 'x' (no final newline, %d characters) does not convert within 25 s" % (h, u, k, len(h + u * k) + 1), rep)
                elif all(isinstance(t, float) for t in ts) and ts[2] > 0.5 and ts[2] > 30 * max(ts[1], 1e-3):
                    ctx.fail("time:exponential:included-file", "an included file %r + %r * n + 'x': CPU time %s for n = 12, 24, 48" % (h, u, ts), rep)
    finally:
        shutil.rmtree(tmp, ignore_errors=True)
    return n_eval


FOCUS = [("```{note}\n:class: ", "ab-", ".x\n```\n"), (".. note:: t\n   :class: ", "box-", ".l\n\n   b\n"), (".. image:: p.png\n   :width: ", "1", "x\n"), (".. image:: p.png\n   :alt: ", "a ", "\"\n"),
         ("```{figure} p.png\n:figclass: ", "a b", "!\n```\n"), (".. toc::\n   :max-level: ", "1", "x\n"), ("```{note} ", "T-", "\n```\n"), (".. image:: ", "a/", " b\n"), ("<x ", "a=b\tc\t", ""), ("a <x ", "a=b\nc ", ">"), ("a >!", " ", "b"), ("x >! ", "a ", ""), ("[", "\\*", ""), ("[", "\\", ""), ("a", " ", "b"), ("[a](/u \"", "\\!", ""), ("[^", "\\]", ""), ("[x]: /u '", "\\'", ""), ("<a ", "b=\"c\" ", ""), ("", "a ", "\n"), ("", "  ", "x"),
         ("*[", "\\]", ""), ("", "\\\n", ""), ("", " \t", "x")]


def run(ctx):
    ctx.broken += common.proof_stage(ctx, THEOREMS)
    q = ctx.quick()
    fams = FOCUS + families(ctx, 60 if q else 1500)
    n = count_oracle(ctx, q)
    n += indexed_oracle(ctx, q)
    n += include_timing(ctx)
    n += oracle(ctx, fams, q)
    n += expo_screen(ctx, q)
    if ctx.broken and not ctx.failures:
        ctx.notes.append("search mode entered: " + "; ".join(ctx.broken)[:300])
        n += expo_screen(ctx, False)
        n += oracle(ctx, FOCUS + families(ctx, 600), False)
    ctx.cov.update({
        "evaluations": n, "distinct_nontrivial": len(set(fams)),
        "explanation": "partial by nature: iteration bounds and regex-class obligations are machine-checked; wall-clock growth is measured (screening in parallel, every suspect re-measured alone over 5 sizes, "
                       "least-squares exponent > 2.35 or absolute limits reported)",
        "rule": "pumped families prefix + unit^n + suffix over %d Markdown-significant tokens (units of one or two tokens), %d prefixes, %d suffixes, under core / all plugins / both directive syntaxes" % (len(UNIT_TOKENS), len(PREFIXES), len(SUFFIXES)),
        "samples": [list(f) for f in fams[:3]],
    })
    ctx.assumptions += ["CPU time is a measurement, not a theorem; sre's actual cost model is outside the Lean model",
                        "the cheap class `polySafe` is a syntactic sufficient condition without a machine-checked step bound yet; 30 regexes of the pinned tree are accepted exceptions"]


def replay(ctx, path):
    r = json.load(open(path))["replay"]
    os.environ["MISTUNE_SRC"] = common.repo_src()
    if r.get("indexed"):
        f = tuple(r["indexed"])
        for n in (75, 150, 300, 600):
            print(n, worker.run_all([(r["config"], build_indexed(f, n), 60.0)], workers=1)[0])
        return 1
    if r.get("family3"):
        f = tuple(r["family3"])
        for n in (6, 12, 24, 48):
            print(n, worker.run_all([(r["config"], build3(f, n), 6.0)], workers=1, fn=worker.count_convert)[0])
        return 1
    f = (r["prefix"], r["unit"], r["suffix"])
    print(remeasure_alone(f, r["config"], [100, 200, 400, 800], 60.0))
    return 1
