"""C04 — parsing recovers the structure of canonically written documents.

Decided by: the constructive oracle — canonical document trees (harness/docgen.py: an inductive Doc type, a
reference printer independent of mistune with randomised layouts, and the expected token tree) must come back
from the real parser, modulo blank_line tokens and style/marker fields; and by the full-tree correspondence of
the concrete Lean parser model with the implementation on the same printed documents (so the same statement
holds of the model).  There is no unbounded theorem for this property yet (it needs completeness of regex
matching, not only soundness): the level claimed is tested, with the Lean model as the executable reference."""
import json
import common, docgen

LEVEL = "other"
THEOREMS = ["Mistune.iterRender_shape", "Mistune.m_sound",
            # handler-level theorems for one construct of the canonical sub-language (ATX headings): the regenerated closing-sequence regex is the expected term,
            # the text computation equals its list-level specification for every string, plain text comes back verbatim, a closing sequence is removed
            "Mistune.atxTrimRx_lookup", "Mistune.atxText_eq", "Mistune.atxText_eq_ofRuleCfg", "Mistune.atx_plain_verbatim", "Mistune.atx_closing_removed", "Mistune.atx_glued_kept", "Mistune.parseAtxHeading_spec",
            # rule firing for ATX headings and thematic breaks: the rule regexes of block.specification are the expected terms (all configurations), they match exactly on the
            # lines of the declared shape (sound and complete), and the handler on that match appends the heading / thematic_break token and returns the position after the line
            "Mistune.atxRule_lookup", "Mistune.thematicRule_lookup", "Mistune.atxGroups_lookup", "Mistune.atxRule_matchAt_hit", "Mistune.atxRule_matchAt_sound", "Mistune.atxRule_matchAt_iff",
            "Mistune.atxRule_none_seven", "Mistune.atxRule_none_glued", "Mistune.atx_line_token", "Mistune.atx_line_token_cfg",
            "Mistune.thematicRule_matchAt_hit", "Mistune.thematicRule_matchAt_iff", "Mistune.break_line_token",
            # the rules tried earlier do not match there: one iteration of BlockParser.parse on such a line; the blank_line rule between two blocks; and the first whole-document
            # fragment: documents of rendered headings and thematic breaks parse to exactly their tokens (every configuration except all-fenced-colon)
            "Mistune.fencedRule_lookup", "Mistune.setexRule_lookup", "Mistune.indentRule_lookup", "Mistune.blockRules_prefix", "Mistune.atx_line_step", "Mistune.break_line_step",
            "Mistune.blankRule_lookup", "Mistune.blankRules_ok", "Mistune.blankRule_matchAt_hit", "Mistune.blank_line_step", "Mistune.leafDoc_loop", "Mistune.leafDoc_blockParse",
            # … and general line documents: any heading lines, any '*' / '_' break lines, maximal groups of blank lines (what docgen.print_doc writes for headings and rules)
            "Mistune.blankRule_matchAt_group", "Mistune.blank_group_step", "Mistune.listRule_present", "Mistune.dash_line_step", "Mistune.line_step", "Mistune.leafLines_loop",
            "Mistune.leafLines_blockParse"]


def features(doc_src):
    return []


def first_diff(a, b, path=""):
    if isinstance(a, list) and isinstance(b, list):
        for i, (x, y) in enumerate(zip(a, b)):
            r = first_diff(x, y, path + "/%d" % i)
            if r:
                return r
        if len(a) != len(b):
            return (path, "length", len(a), len(b))
        return None
    if isinstance(a, dict) and isinstance(b, dict):
        if a.get("type") != b.get("type"):
            return (path, "type", a.get("type"), b.get("type"))
        for k in sorted(set(a) | set(b)):
            if k != "children" and a.get(k) != b.get(k):
                return (path + ":" + a["type"], k, a.get(k), b.get(k))
        return first_diff(a.get("children", []), b.get("children", []), path + ":" + a["type"])
    return (path, "value", a, b) if a != b else None


def oracle(ctx, n, maxdepth=3):
    import mistune
    md = mistune.create_markdown(renderer=None)
    srcs = []
    cnt = 0
    for _ in range(n):
        lay = docgen.Layout(ctx.rng)
        doc = docgen.gen_blocks(ctx.rng, 0, maxdepth)
        src = docgen.print_doc(doc, lay)
        srcs.append(src)
        cnt += 1
        try:
            got = docgen.normalise(md(src))
        except Exception as e:
            ctx.fail("exception", "parsing a canonical document raised %r" % e, {"doc": src}); continue
        exp = docgen.normalise(docgen.expected(doc))
        if got != exp:
            fd = first_diff(exp, got)
            what = fd[1] if fd[1] in ("type", "length") else fd[0].rsplit(":", 1)[-1] + "." + fd[1]
            ctx.fail("structure:%s:%s" % (what, fd[2] if fd[1] == "type" else ""), "canonical document does not parse back to its tree at %s: expected %r, got %r; document %r" % (fd[0], fd[2], fd[3], src),
                     {"doc": src, "at": fd[0], "expected": fd[2], "got": fd[3]})
    return cnt, srcs


def atx_spec(g2):
    """the list-level specification `atxSpec` of MistuneProofs/C04Atx.lean, in Python"""
    t = g2.strip()
    b = t.rstrip("#")
    body = b.rstrip()
    if not b:
        return ""
    if len(b) < len(t) and len(body) < len(b):
        return body
    return t


def leaflines_tie(ctx, n):
    """the statement of leafLines_blockParse (MistuneProofs/C04LeafDoc.lean) evaluated on the implementation: a document whose lines are ATX heading lines (0-3 blanks, 1-6 '#',
    then nothing or a blank/tab and anything), thematic-break lines of '-', '_' or '*' (any spacing) and maximal groups of blank lines (the first one empty) parses to exactly one
    token per item, heading texts being atxSpec(rest of the line)"""
    from mistune.core import BlockState
    from mistune.block_parser import BlockParser
    block = BlockParser()
    pieces = ["foo", "bar", "a b", "#", "##", " ", "  ", "\t", "\\", "*", "x#", "C#", "\u00a0", "\u3000", "é", "`", "-", "=", ">", "1.", "[a]:", "<b>", "~~~", "|"]
    docs = 0
    for i in range(n):
        src, want, prev_blank = "", [], False
        for _ in range(ctx.rng.randint(0, 7)):
            k = ctx.rng.random()
            if k < 0.5:
                ind = " " * ctx.rng.randint(0, 3); hashes = "#" * ctx.rng.randint(1, 6)
                tail = ""
                if ctx.rng.random() < 0.85:
                    tail = ctx.rng.choice([" ", "\t", "  "]) + "".join(ctx.rng.choice(pieces) for _ in range(ctx.rng.randint(0, 5)))
                src += ind + hashes + tail + "\n"
                want.append({"type": "heading", "text": atx_spec(tail), "attrs": {"level": len(hashes)}, "style": "atx"}); prev_blank = False
            elif k < 0.75:
                c = ctx.rng.choice("-_*")
                body = "".join(c + ctx.rng.choice(["", "", " ", "\t", "  "]) for _ in range(ctx.rng.randint(3, 6)))
                src += " " * ctx.rng.randint(0, 3) + body + "\n"
                want.append({"type": "thematic_break"}); prev_blank = False
            elif not prev_blank:
                src += "\n" + "".join(ctx.rng.choice(["", " ", "\t", " \x0b", "\x0c "]) + "\n" for _ in range(ctx.rng.randint(0, 2)))
                want.append({"type": "blank_line"}); prev_blank = True
        st = BlockState(); st.process(src)
        block.parse(st)
        docs += 1
        if st.tokens != want:
            ctx.fail("leaflines", "the line document %r parses to %r, expected %r" % (src, st.tokens, want), {"doc": src})
    ctx.cov["leaf_line_documents_checked"] = docs
    return docs


KNOWN_EXAMPLES = [("[a \\` b](u) `c d`\n", "precedence-scan-ignores-escape")]


def replay_known(ctx):
    import mistune
    md = mistune.create_markdown(renderer=None)
    for k in ctx.known:
        ex = k.get("example") or {}
        if "doc" not in ex:
            continue
        toks = md(ex["doc"])
        types = [t["type"] for t in toks[0]["children"]] if toks and "children" in toks[0] else []
        if ex["expect_type"] not in types:
            ctx.fail(ex["signature"], "stored example of a known finding: %r parses to %s" % (ex["doc"], types), {"doc": ex["doc"]})
        else:
            ctx.notes.append("a stored known-finding example no longer fails: %r" % ex["doc"])


def run(ctx):
    ctx.broken += common.proof_stage(ctx, THEOREMS)
    replay_known(ctx)
    n, srcs = oracle(ctx, 2500 if ctx.quick() else 40000, 3 if ctx.quick() else 4)
    common.model_tie(ctx, srcs, "core", "doc", limit=(900 if ctx.quick() else 9000))
    n += leaflines_tie(ctx, 400 if ctx.quick() else 8000)
    if ctx.broken and not [f for f in ctx.failures if not ctx.is_known(f["signature"])]:
        ctx.notes.append("search mode entered")
        n2, _ = oracle(ctx, 30000, 4)
        n += n2
    ctx.cov.update({
        "evaluations": n, "distinct_nontrivial": len(set(srcs)),
        "explanation": "constructive round trip Doc -> reference printer (random layout) -> real parser ≈ expected tree, plus full-tree correspondence of the concrete Lean parser model on the same documents; tested, not proved",
        "rule": "random canonical Doc trees (headings 1-6 ATX/setext, paragraphs with emphasis/strong/code spans/links/images/autolinks/inline HTML/escapes/hard and soft breaks, fenced and indented code, thematic breaks, "
                "HTML blocks, block quotes, bullet/ordered tight/loose nested lists with start numbers) printed with a random layout (markers, fence, delimiters, title quotes, closing hashes); every document is distinct",
        "samples": srcs[:2],
    })
    ctx.assumptions += ["canonical sub-language as generated by harness/docgen.py; two documented exclusions (tab-indented code inside containers; escaped backtick / '<' inside emphasis or link text followed by a code span or tag) are known findings",
                        "unbounded theorems only for one construct (ATX heading text, handler level); the property as a whole is 'tested against an executable Lean reference model'"]


def replay(ctx, path):
    r = json.load(open(path))["replay"]
    import mistune
    print(json.dumps(docgen.normalise(mistune.create_markdown(renderer=None)(r["doc"])))[:3000])
    return 1
