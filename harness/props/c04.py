"""C04 — parsing recovers the structure of canonically written documents.

Decided by: the constructive oracle — canonical document trees (harness/docgen.py: an inductive Doc type, a
reference printer independent of mistune with randomised layouts, and the expected token tree) must come back
from the real parser, modulo blank_line tokens and style/marker fields; and by the full-tree correspondence of
the concrete Lean parser model with the implementation on the same printed documents (so the same statement
holds of the model).  There is no unbounded theorem for this property yet (it needs completeness of regex
matching, not only soundness): the level claimed is tested, with the Lean model as the executable reference."""
import json
import common, docgen

LEVEL = "other"
THEOREMS = ["Mistune.iterRender_shape", "Mistune.m_sound",
            # handler-level theorems for one construct of the canonical sub-language (ATX headings): the regenerated closing-sequence regex is the expected term,
            # the text computation equals its list-level specification for every string, plain text comes back verbatim, a closing sequence is removed
            "Mistune.atxTrimRx_lookup", "Mistune.atxText_eq", "Mistune.atxText_eq_ofRuleCfg", "Mistune.atx_plain_verbatim", "Mistune.atx_closing_removed", "Mistune.atx_glued_kept", "Mistune.parseAtxHeading_spec"]


def features(doc_src):
    return []


def first_diff(a, b, path=""):
    if isinstance(a, list) and isinstance(b, list):
        for i, (x, y) in enumerate(zip(a, b)):
            r = first_diff(x, y, path + "/%d" % i)
            if r:
                return r
        if len(a) != len(b):
            return (path, "length", len(a), len(b))
        return None
    if isinstance(a, dict) and isinstance(b, dict):
        if a.get("type") != b.get("type"):
            return (path, "type", a.get("type"), b.get("type"))
        for k in sorted(set(a) | set(b)):
            if k != "children" and a.get(k) != b.get(k):
                return (path + ":" + a["type"], k, a.get(k), b.get(k))
        return first_diff(a.get("children", []), b.get("children", []), path + ":" + a["type"])
    return (path, "value", a, b) if a != b else None


def oracle(ctx, n, maxdepth=3):
    import mistune
    md = mistune.create_markdown(renderer=None)
    srcs = []
    cnt = 0
    for _ in range(n):
        lay = docgen.Layout(ctx.rng)
        doc = docgen.gen_blocks(ctx.rng, 0, maxdepth)
        src = docgen.print_doc(doc, lay)
        srcs.append(src)
        cnt += 1
        try:
            got = docgen.normalise(md(src))
        except Exception as e:
            ctx.fail("exception", "parsing a canonical document raised %r" % e, {"doc": src}); continue
        exp = docgen.normalise(docgen.expected(doc))
        if got != exp:
            fd = first_diff(exp, got)
            what = fd[1] if fd[1] in ("type", "length") else fd[0].rsplit(":", 1)[-1] + "." + fd[1]
            ctx.fail("structure:%s:%s" % (what, fd[2] if fd[1] == "type" else ""), "canonical document does not parse back to its tree at %s: expected %r, got %r; document %r" % (fd[0], fd[2], fd[3], src),
                     {"doc": src, "at": fd[0], "expected": fd[2], "got": fd[3]})
    return cnt, srcs


KNOWN_EXAMPLES = [("[a \\` b](u) `c d`\n", "precedence-scan-ignores-escape")]


def replay_known(ctx):
    import mistune
    md = mistune.create_markdown(renderer=None)
    for k in ctx.known:
        ex = k.get("example") or {}
        if "doc" not in ex:
            continue
        toks = md(ex["doc"])
        types = [t["type"] for t in toks[0]["children"]] if toks and "children" in toks[0] else []
        if ex["expect_type"] not in types:
            ctx.fail(ex["signature"], "stored example of a known finding: %r parses to %s" % (ex["doc"], types), {"doc": ex["doc"]})
        else:
            ctx.notes.append("a stored known-finding example no longer fails: %r" % ex["doc"])


def run(ctx):
    ctx.broken += common.proof_stage(ctx, THEOREMS)
    replay_known(ctx)
    n, srcs = oracle(ctx, 2500 if ctx.quick() else 40000, 3 if ctx.quick() else 4)
    common.model_tie(ctx, srcs, "core", "doc", limit=(900 if ctx.quick() else 9000))
    if ctx.broken and not [f for f in ctx.failures if not ctx.is_known(f["signature"])]:
        ctx.notes.append("search mode entered")
        n2, _ = oracle(ctx, 30000, 4)
        n += n2
    ctx.cov.update({
        "evaluations": n, "distinct_nontrivial": len(set(srcs)),
        "explanation": "constructive round trip Doc -> reference printer (random layout) -> real parser ≈ expected tree, plus full-tree correspondence of the concrete Lean parser model on the same documents; tested, not proved",
        "rule": "random canonical Doc trees (headings 1-6 ATX/setext, paragraphs with emphasis/strong/code spans/links/images/autolinks/inline HTML/escapes/hard and soft breaks, fenced and indented code, thematic breaks, "
                "HTML blocks, block quotes, bullet/ordered tight/loose nested lists with start numbers) printed with a random layout (markers, fence, delimiters, title quotes, closing hashes); every document is distinct",
        "samples": srcs[:2],
    })
    ctx.assumptions += ["canonical sub-language as generated by harness/docgen.py; two documented exclusions (tab-indented code inside containers; escaped backtick / '<' inside emphasis or link text followed by a code span or tag) are known findings",
                        "unbounded theorems only for one construct (ATX heading text, handler level); the property as a whole is 'tested against an executable Lean reference model'"]


def replay(ctx, path):
    r = json.load(open(path))["replay"]
    import mistune
    print(json.dumps(docgen.normalise(mistune.create_markdown(renderer=None)(r["doc"])))[:3000])
    return 1
