"""C16 — line-ending style does not matter.

Decided by: theorems of MistuneProofs.C16 about `norm` (the three normalisation statements of
Markdown.parse) for ALL strings; the tie is that the real parser's `state.src` equals the model's `norm s`
(exhaustive short strings over {a, space, CR, LF, >} + random documents), i.e. everything after the first
four statements of `parse` sees only the normal form."""
import common, gen, configs
from common import enc, dec

LEVEL = "proof"
THEOREMS = ["Mistune.crNorm_eq_endsTo", "Mistune.norm_crlf", "Mistune.norm_cr", "Mistune.norm_lf",
            "Mistune.norm_of_same_lf_form", "Mistune.norm_append_nl", "Mistune.norm_empty",
            "Mistune.norm_none_eq_empty", "Mistune.norm_ends_nl",
            # the same laws for the whole-document function of the concrete model (every configuration, every string)
            "Mistune.Model.parseDoc_congr_norm", "Mistune.Model.parseDoc_crlf", "Mistune.Model.parseDoc_cr", "Mistune.Model.parseDoc_lf", "Mistune.Model.parseDoc_crlf_cr_lf",
            "Mistune.Model.parseDoc_of_same_lf_form", "Mistune.Model.parseDoc_append_nl", "Mistune.Model.parseDoc_empty", "Mistune.Model.blockParse_of_same_lf_form",
            "Mistune.Model.blockParse_append_nl"]


def ends_to(s, e):
    out, i = [], 0
    while i < len(s):
        c = s[i]
        if c == "\r" and i + 1 < len(s) and s[i + 1] == "\n":
            out.append(e); i += 2
        elif c in "\r\n":
            out.append(e); i += 1
        else:
            out.append(c); i += 1
    return "".join(out)


def variants(s, rng):
    vs = [("crlf", ends_to(s, "\r\n")), ("cr", ends_to(s, "\r")), ("lf", ends_to(s, "\n"))]
    # mixed: choose per ending, avoiding CR immediately followed by a chosen LF (which would read as one CRLF)
    out, i, prev_cr = [], 0, False
    t = ends_to(s, "\n")
    for ch in t:
        if ch == "\n":
            opts = ["\r\n", "\r"] if prev_cr else ["\n", "\r\n", "\r"]
            e = rng.choice(opts)
            out.append(e)
            prev_cr = (e == "\r")
        else:
            out.append(ch)
            prev_cr = False
    vs.append(("mixed", "".join(out)))
    if not s.endswith("\n") and not s.endswith("\r"):
        vs.append(("final-nl", s + "\n"))
    return vs


def documents(ctx, big=False):
    k = 7 if (big or not ctx.quick()) else 6
    xs = list(gen.exhaustive(["a", " ", "\r", "\n", ">"], k))
    # long last lines without a final line end (a normalisation that looks only at the end of the text)
    for k in (1000, 2047, 2048, 2049, 4096, 5000):
        xs += ["a\nb\n" + "x" * k, "# h\n\n- i\n- j\n\n" + "word " * (k // 5), "```\nc\n```\n" + "y" * k]
    for _ in range(20000 if (big or not ctx.quick()) else 2500):
        d = gen.md_any(ctx.rng)
        if ctx.rng.random() < 0.5:
            d = d.replace("\n", ctx.rng.choice(["\r\n", "\r", "\n"]))
        xs.append(d)
    return xs


def oracle(ctx, mds, docs, per_doc_cfgs=2):
    n = 0
    names = list(mds)
    for s in docs:
        for nm in ctx.rng.sample(names, min(per_doc_cfgs, len(names))):
            md = mds[nm]
            try:
                base = md(s)
            except RecursionError:
                continue
            except Exception as e:   # C01's business; here only equality of behaviour matters
                base = ("EXC", type(e).__name__)
            for kind, v in variants(s, ctx.rng):
                n += 1
                try:
                    r = md(v)
                except RecursionError:
                    continue
                except Exception as e:
                    r = ("EXC", type(e).__name__)
                if r != base:
                    ctx.fail("line-ending-%s" % kind, "config %s: converting %r and its %s variant %r differ" % (nm, s, kind, v),
                             {"config": nm, "s": s, "variant": v, "kind": kind})
    for nm, md in mds.items():
        n += 1
        a, b = md(None), md("")
        if a != b:
            ctx.fail("none-vs-empty", "config %s: md(None) != md('')" % nm, {"config": nm, "s": None})
        if nm in ("core", "preset", "all", "core-noescape") and b != "":
            ctx.fail("empty-not-empty", "config %s: md('') = %r, expected ''" % (nm, b), {"config": nm, "s": ""})
    # the other documented entry points: mistune.html, mistune.markdown(…) with its argument combinations (twice: the second call
    # is served by the converter cache)
    import mistune
    entry = [("mistune.html", lambda x: mistune.html(x))]
    for kw in ({}, {"escape": False}, {"renderer": "ast"}, {"plugins": ["table", "footnotes"]}, {"escape": False, "plugins": ["strikethrough"]}, {"renderer": None}):
        entry.append(("mistune.markdown(**%r)" % (kw,), lambda x, kw=kw: mistune.markdown(x, **kw)))
        entry.append(("mistune.markdown(**%r) again" % (kw,), lambda x, kw=kw: mistune.markdown(x, **kw)))
    # (Markdown.parse takes a str: None is handled by __call__ and markdown(), which is what "converted" means)
    # the functional entry point on line-ending variants (token list: blank lines are visible there)
    for base in ("\n# Title\n\ntext\n", "\n\npara\n", "a\nb\n\n- c\n", "x\n" + "long " * 600, "> q\n" + "w" * 2100, "```\ncode\n```\n" + "tail " * 500):
        for kw in ({"renderer": "ast"}, {"renderer": None}, {}, {"escape": False}):
            try:
                ref = mistune.markdown(base, **kw)
            except Exception:
                continue
            for kind, v in variants(base, ctx.rng):
                n += 1
                try:
                    r = mistune.markdown(v, **kw)
                except Exception as e:
                    r = ("EXC", type(e).__name__)
                if r != ref:
                    ctx.fail("line-ending-%s:markdown()" % kind, "mistune.markdown(**%r): %r and its %s variant differ" % (kw, base[:60], kind), {"config": "markdown() %r" % (kw,), "s": base[:300], "variant": v[:300], "kind": kind})
                    break
    for nm, f in entry:
        n += 1
        try:
            a, b = f(None), f("")
        except Exception as e:
            ctx.fail("none-vs-empty:api", "%s raises %r for None or ''" % (nm, e), {"config": nm, "s": None}); continue
        if a != b:
            ctx.fail("none-vs-empty:api", "%s: None gives %r, '' gives %r" % (nm, a, b), {"config": nm, "s": None})
        elif isinstance(b, str) and b != "":
            ctx.fail("empty-not-empty:api", "%s: '' gives %r, expected empty HTML" % (nm, b), {"config": nm, "s": ""})
    return n


def correspondence(ctx, md, docs):
    d = common.Driver()
    docs = [x for x in docs if not common.has_surrogate(x)]
    out = d.batch([("norm", enc(s)) for s in docs])
    bad = 0
    for s, got in zip(docs, out):
        st = md.parse(s)[1]
        if st.src != dec(got):
            bad += 1
            if bad <= 5:
                ctx.broken.append("correspondence: model norm(%r) = %r but the parser's state.src = %r" % (s, dec(got), st.src))
    ctx.cov["traces_validated_against_impl"] = len(docs)
    ctx.cov["disagreements_checked"] = len(docs)
    ctx.cov["disagreements"] = bad


def read_part(ctx):
    """Markdown.read(): the same text stored with LF / CRLF / CR line ends, in several encodings, small and larger than 64 KiB
    (every alignment of a line end against a 64 KiB boundary), must convert like the LF text given as a string."""
    import mistune, tempfile, shutil, os
    n = 0
    tmp = tempfile.mkdtemp(prefix="verif-c16-")
    md = mistune.create_markdown(plugins=["table", "footnotes"])
    try:
        small = ["para line one\nline two\n\n- a\n- b\n\n```\ncode\n\nmore\n```\n\n| h |\n|---|\n| c |\n", "# T\n\ntext[^1]\n\n[^1]: note\n   cont\n", "a\nb", "caf\u00e9 \u00fcber\n\n> q\n> r\n"]
        cases = []
        for d in small:
            for enc_ in ("utf-8", "utf-16", "utf-16-le", "utf-16-be", "utf-32", "latin-1"):
                cases.append((d, enc_, 0))
        # file heads that tools in front of a converter treat specially (front matter, shebang, comment / metadata headers, control characters):
        # to read() they are Markdown like everything else, whatever the line ends
        heads = ["---\nkey: v\n---\n\nbody\n", "---\ntitle: Home page\nauthor: me\n---\n# h\n", "---\nkey: v\n...\ntext\n", "---\nkey: v\n---", "+++\ntitle = 1\n+++\n\ntext\n", "---\n---\ntext\n",
                 "#!/usr/bin/env markdown\ntext\n", "% title\n% author\n\nbody\n", "Title: x\nDate: y\n\nbody\n", "<!-- header -->\ntext\n", "\x0c\npage\n", "a\x00b\n", "text\x1a\n", "\n\n  lead\n", "[//]: # (c)\ntext\n"]
        for d in heads + [gen.md_any(ctx.rng, 6) for _ in range(40 if ctx.quick() else 1500)]:
            d = d.replace("\r", "")
            if d:
                cases.append((d, "utf-8", 0))
        line = "abcdefghijkl"          # 12 characters + line end
        big = ("# heading\n\n" + (line + "\n") * 5200 + "\nend\n")      # > 64 KiB with CRLF
        for pad in range(0, 15):
            cases.append(("x" * pad + "\n\n" + big, "utf-8", pad))
        big2 = "# h\n\n" + ("\u65e5\u672c\u8a9e " * 6 + "\n") * 2800 + "\nend\n"      # multi-byte characters across the boundary
        for pad in range(0, 4):
            cases.append(("y" * pad + "\n\n" + big2, "utf-8", pad))
        for d, enc_, pad in cases:
            try:
                want = md(d)
            except Exception:
                continue
            for kind, e in (("lf", "\n"), ("crlf", "\r\n"), ("cr", "\r")):
                try:
                    data = d.replace("\n", e).encode(enc_)
                except UnicodeEncodeError:
                    continue
                pth = os.path.join(tmp, "f.md")
                with open(pth, "wb") as f:
                    f.write(data)
                n += 1
                try:
                    got = md.read(pth, encoding=enc_)[0]
                except Exception as ex:
                    got = "EXC %s" % type(ex).__name__
                if got != want:
                    ctx.fail("read-line-ending-%s:%s" % (kind, enc_ if len(d) < 1000 else "large-file"), "Markdown.read() of a %d-byte %s file with %s line ends (pad %d) differs from converting the LF text" % (len(data), enc_, kind.upper(), pad),
                             {"config": "read", "s": d if len(d) < 2000 else d[:200] + "…", "variant": kind, "kind": kind, "encoding": enc_, "bytes": len(data), "pad": pad})
                    break
    finally:
        shutil.rmtree(tmp, ignore_errors=True)
    return n


def include_part(ctx):
    """Files pulled in by the include directive are input too: the same included Markdown file stored with LF / CRLF / CR line ends, with and
    without its final newline, must give the same page."""
    import mistune, tempfile, shutil, os
    from mistune.directives import FencedDirective, RSTDirective, Include
    n = 0
    tmp = tempfile.mkdtemp(prefix="verif-c16i-")
    try:
        incs = ["# t\n\npara\nmore\n", "- a\n- b\n\n```\ncode\n\nx\n```\n", "> q\n> r\n\nlast line", "a  \nb\\\nc\n\n[l]: /u\n\n[l]\n", "| h |\n|---|\n| c |\n"]
        incs += [gen.md_any(ctx.rng, 5).replace("\r", "") for _ in range(15 if ctx.quick() else 400)]
        for style in ("rst", "fenced"):
            D = RSTDirective if style == "rst" else FencedDirective
            md = mistune.create_markdown(plugins=["table", D([Include()])])
            page = ("before\n\n.. include:: inc.md\n\nafter\n" if style == "rst" else "before\n\n```{include} inc.md\n```\n\nafter\n")
            with open(os.path.join(tmp, "page.md"), "w", encoding="utf-8", newline="") as f:
                f.write(page)
            for d in incs:
                if not d:
                    continue
                outs = {}
                for kind, e in (("lf", "\n"), ("crlf", "\r\n"), ("cr", "\r"), ("lf-nofinal", None)):
                    if e is None and not (d.endswith("\n") and not d.endswith("\n\n")):
                        outs[kind] = None       # "the missing final newline": only a text that ends in exactly one line end has such a variant
                        continue
                    data = d[:-1] if e is None else d.replace("\n", e)
                    with open(os.path.join(tmp, "inc.md"), "wb") as f:
                        f.write(data.encode("utf-8"))
                    try:
                        outs[kind] = md.read(os.path.join(tmp, "page.md"))[0]
                    except Exception as ex:
                        outs[kind] = "EXC %s" % type(ex).__name__
                    n += 1
                for kind in ("crlf", "cr", "lf-nofinal"):
                    if outs[kind] is not None and outs[kind] != outs["lf"]:
                        ctx.fail("include-line-ending-%s" % kind, "a page including a file (%s syntax) stored with %s line ends differs from the same page with the file in LF form: %r vs %r" % (style, kind.upper(), outs[kind][:200], outs["lf"][:200]),
                                 {"config": "include-" + style, "s": d, "variant": kind, "kind": kind})
                        break
    finally:
        shutil.rmtree(tmp, ignore_errors=True)
    return n


def run(ctx):
    import mistune
    ctx.broken += common.proof_stage(ctx, THEOREMS)
    cfgs = configs.named("quick" if ctx.quick() else "thorough")
    mds = {c["name"]: configs.make(c) for c in cfgs}
    mds["mistune.html"] = mistune.html
    docs = documents(ctx)
    correspondence(ctx, mds["ast-core"], docs)
    # C16Doc is about parseDoc of the concrete model: its correspondence on documents WITH their CR / CRLF / mixed line ends (the model normalises itself)
    common.model_tie(ctx, [d for d in docs if d is not None and ("\r" in d or "\n" in d)], "core", "doc", limit=(800 if ctx.quick() else 8000))
    n = oracle(ctx, mds, docs)
    n += read_part(ctx)
    n += include_part(ctx)
    if ctx.broken and not ctx.failures:
        ctx.notes.append("search mode entered")
        n += oracle(ctx, mds, documents(ctx, big=True), per_doc_cfgs=4)
    nt = len(set(x for x in docs if "\r" in x or "\n" in x[:-1]))
    ctx.cov.update({
        "evaluations": n, "distinct_nontrivial": nt,
        "rule": "all strings up to length %d over {a,space,CR,LF,>} + seeded Markdown documents with random ending styles; "
                "each converted under sampled configurations in LF/CRLF/CR/mixed/final-newline variants; non-trivial = has an interior line ending or a CR"
                % (6 if ctx.quick() else 7),
        "samples": [repr(x) for x in docs[3000:3003] + docs[-2:]],
        "configurations": sorted(mds),
    })
    ctx.assumptions += ["everything after normalisation in Markdown.parse reads only state.src (checked: state.src == model norm(s) on every input; behaviour equality checked by the oracle)"]


def replay(ctx, path):
    import json, mistune
    r = json.load(open(path))["replay"]
    cfgs = {c["name"]: c for c in configs.named("thorough")}
    md = mistune.html if r["config"] == "mistune.html" else configs.make(cfgs[r["config"]])
    a, b = md(r["s"]), md(r.get("variant", ""))
    print("input  :", repr(r["s"]), "->", repr(a))
    print("variant:", repr(r.get("variant")), "->", repr(b))
    return 1 if a != b else 0
