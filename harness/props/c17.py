"""C17 — the command-line tool is a faithful front end to the library.

Decided by: Lean theorems about the model of `__main__.cli` (channel selection, flag mapping, output channel)
for every conversion function / flag combination / non-empty content; tied to the code by running the real
`python -m mistune` over the product of flags × input channel × output channel and comparing with the plan
the model prints, executed with the real library."""
import os, sys, subprocess, tempfile, itertools, re
from concurrent.futures import ThreadPoolExecutor
import common, gen, configs
from common import enc, dec

LEVEL = "proof"
THEOREMS = ["Mistune.cli_message_stdout", "Mistune.cli_message_file", "Mistune.cli_channels_agree",
            "Mistune.cfgOf_flags", "Mistune.cli_message_wins"]

DOCS = ["Hi **Markdown**", "# T\n\npara ~~del~~ text[^1]\n\n[^1]: note\n", "a | b\n--- | ---\n1 | 2\n",
        "line one\nline two  \nthree <b>raw</b> & x\n", "- item\n- [ ] task\n\n> quote https://u.v\n",
        "﻿# bom title\n", "    code\n\n```py\nx\n```\n", "tab\there é ß 日本\n", "x", "[a](u) ![i](s \"t\") `c`\n\n***\n",
        "H~2~O ^sup^ ==m== ^^ins^^ $m$\n", "term\n: def\n\n*[HTML]: Hyper\nHTML\n",
        # content whose conversion depends on its last characters (unclosed fence / HTML block keep trailing blank lines) and on plugin order
        "`\\n` and C:\\new \\nu \\t tab\\\\n", "a\\nb", "```\nopen fence\n\n\n", "<pre>\n\nkeep\n\n\n", "~~~\n\n", "text\n\n\n\n", "see https://example.com/page for details and ~~x~~\n", "a\r\nb\rc\n", "\n\nlead", "trail   \n\n"]
CHANNEL_DOCS = ["a\x00b\n", "\x00", "---\nkey: v\n---\n", "---\ntitle: Home page\nauthor: me\n---\n\n# h\n\nbody\n", "---\nlayout: post\n---\nbody", "+++\ntitle = 1\n+++\n\ntext\n",
                "---\n---\ntext\n", "...\nkey: v\n...\n", "#!/usr/bin/env markdown\ntext\n", "% title\n% author\n\nbody\n", "<!-- header -->\ntext\n", "\ufeff\ufeffx\n", "x\ufeffy\n", "text\x1a", "\x1atext\n",
                "\x0c\npage\x0c\n", "a\u2028b\u2029c\x85d\n", "a\r\r\nb\n", "a\n\rb\r", "\r\n\r\nlead\r\n", "  lead blanks\n", "\tlead tab\n", "trail blanks   ", "trail nl\n\n\n", "Title: x\nDate: y\n\nbody\n", "\x1b[1mbold\x1b[0m\n",
                "\x7f\x08x\n", "\ud7ff\ue000\ufffd\uffff\n", "\U0001f600 \U00010000\n", "<?xml version=\"1.0\"?>\ntext\n", "<!DOCTYPE html>\ntext\n", "[//]: # (comment)\ntext\n", "{% raw %}x{% endraw %}\n", "{{ var }}\n", "@import x\n"]
PLUGIN_SETS = [None, ["url"], ["table"], ["strikethrough", "url"], ["footnotes"], ["task_lists", "def_list"],
               ["math", "ruby", "spoiler"], ["abbr", "mark", "insert", "superscript", "subscript"], ["speedup"],
               # order and repetition are part of the configuration (plugins register rules in the order given)
               ["url", "speedup"], ["speedup", "url"], ["url", "strikethrough", "speedup", "url"], ["table", "speedup", "def_list", "abbr"], ["spoiler", "url", "speedup", "footnotes"]]
RENDERERS = ["html", "markdown", "rst"]


def opt(s):
    return "-" if s is None else "s" + enc(s)


def enc_list(xs):
    return "|".join("s" + enc(x) for x in xs)


def run_cli(args, stdin_text, cwd):
    env = dict(os.environ)
    env["PYTHONPATH"] = common.repo_src()
    env["PYTHONIOENCODING"] = "utf-8"
    env["PYTHONUTF8"] = "1"
    p = subprocess.run([sys.executable, "-m", "mistune"] + args, input=(stdin_text if stdin_text is not None else None),
                       stdin=(None if stdin_text is not None else subprocess.DEVNULL),
                       capture_output=True, text=True, encoding="utf-8", cwd=cwd, env=env, timeout=120)
    return p.returncode, p.stdout, p.stderr


def exec_plan(plan):
    """Execute the model's symbolic outcome with the real library. Returns (kind, path, text | ('EXC', name))."""
    import mistune
    from mistune.renderers.markdown import MarkdownRenderer
    from mistune.renderers.rst import RSTRenderer
    m = re.match(r"(stdout|file (\S*)) (.*)$", plan, re.S)
    if not m:
        return (plan.split(" ")[0], None, None)
    kind = "stdout" if m.group(1) == "stdout" else "file"
    path = dec(m.group(2)) if m.group(2) else None
    body = m.group(3)
    cm = re.match(r"CONV\(([01]),([01]),([\d,]*),((?:s[\d,]*\|?)*);([\d,]*)\)(<NL>)?$", body)
    assert cm, body
    esc, hw, rend, plugs, src, nl = cm.groups()
    rend = dec(rend)
    plugs = [dec(t[1:]) for t in plugs.split("|")] if plugs else []
    renderer = {"rst": RSTRenderer, "markdown": MarkdownRenderer}.get(rend)
    renderer = renderer() if renderer else rend
    try:
        md = mistune.create_markdown(escape=esc == "1", hard_wrap=hw == "1", renderer=renderer, plugins=plugs)
        text = md(dec(src))
        if not isinstance(text, str):
            return (kind, path, ("EXC", "AssertionError"))
    except Exception as e:
        return (kind, path, ("EXC", type(e).__name__))
    return (kind, path, text + ("\n" if nl else ""))


def cases(ctx, big=False):
    out = []
    prod = list(itertools.product([False, True], [False, True], RENDERERS, range(len(PLUGIN_SETS)), ["-m", "-f", "stdin"], [False, True]))
    ctx.rng.shuffle(prod)
    n = len(prod) if (big or not ctx.quick()) else 260
    for i, (esc, hw, rend, pi, chan, outf) in enumerate(prod[:n]):
        doc = DOCS[(i + ctx.seed) % len(DOCS)] if ctx.rng.random() < 0.8 else (gen.md_any(ctx.rng, 5).replace("\x00", "") or "x")
        # (a message that starts with "-" and has no blank is taken for an option by argparse: known finding, exercised below)
        if chan == "-m" and doc.startswith("-") and not any(c in doc for c in " \t\n"):
            doc = "x " + doc
        out.append(dict(escape=esc, hardwrap=hw, renderer=rend, plugins=PLUGIN_SETS[pi], chan=chan, outfile=outf, doc=doc))
    # special cases: -m together with -f, empty message with stdin, nothing at all
    out.append(dict(escape=False, hardwrap=False, renderer="html", plugins=None, chan="-m+-f", outfile=False, doc="both **given**"))
    out.append(dict(escape=True, hardwrap=False, renderer="html", plugins=None, chan="none", outfile=False, doc=""))
    for rend in RENDERERS:
        out.append(dict(escape=False, hardwrap=False, renderer=rend, plugins=None, chan="-f", outfile=True, inplace=True, doc="# Title\n\nin *place* text\n"))
    for chan in ("-m", "-f", "stdin"):
        out.append(dict(escape=False, hardwrap=False, renderer="html", plugins=None, chan=chan, outfile=True, relative_out=True, doc="relative *output* name\n" if chan != "-m" else "relative *output* name"))
    for chan in ("-f", "-m"):
        for outf in (False, True):
            out.append(dict(escape=False, hardwrap=False, renderer="html", plugins=None, chan=chan, outfile=outf, doc="the *named* input\n" if chan == "-f" else "the *named* input", extra_stdin="OTHER **stdin** data\n"))
    # files larger than 64 KiB: multi-byte characters and line ends at every alignment against a 64 KiB boundary
    big = "# h\n\n" + ("\u65e5\u672c\u8a9e\u00e4\u00f6 " * 5 + "\n") * 2400 + "\nend\n"
    for pad in range(0, 4):
        out.append(dict(escape=False, hardwrap=False, renderer="html", plugins=None, chan="-f", outfile=(pad % 2 == 1), doc="p" * pad + "\n\n" + big))
    out.append(dict(escape=False, hardwrap=False, renderer="html", plugins=None, chan="stdin", outfile=False, doc=big))
    # content that tools in front of a converter like to treat specially (front matter, NUL, byte-order marks, control characters, shebang /
    # comment headers, odd line ends): every channel must hand it to the library as it is
    for j, doc in enumerate(CHANNEL_DOCS):
        for chan in ("-f", "stdin", "-m"):
            if chan == "-m" and ("\x00" in doc or doc.startswith("-")):
                continue
            out.append(dict(escape=bool(j % 2), hardwrap=False, renderer=RENDERERS[j % 3] if j % 4 == 3 else "html", plugins=PLUGIN_SETS[j % 4], chan=chan, outfile=(j % 5 == 4), doc=doc))
    # renderings that are the empty string (only definitions / blank lines): the output file is the library's result, unchanged
    for doc in ("[home]: https://example.com/\n", "[^1]: unreferenced\n", "\n\n", " \n", "*[HTML]: Hyper\n", "[a]: /u\n[b]: /v 't'\n"):
        for chan in ("-f", "stdin", "-m"):
            for rend in RENDERERS:
                out.append(dict(escape=False, hardwrap=False, renderer=rend, plugins=(["footnotes", "abbr"] if rend == "html" else None), chan=chan, outfile=True, doc=doc))
    for doc in ("---", "-x", "- item\n- two", "-", "--help me", "@file"):
        out.append(dict(escape=True, hardwrap=False, renderer="html", plugins=None, chan="-m", outfile=False, doc=doc))
    return out


def one(case, tmp, idx):
    doc = case["doc"]
    args = []
    fpath = os.path.join(tmp, "in%d.md" % idx)
    opath = os.path.join(tmp, "out%d.txt" % idx)
    msg = file = stdin = None
    if case["chan"] in ("-m", "-m+-f"):
        args += ["-m", doc]; msg = doc
    if case["chan"] in ("-f", "-m+-f"):
        with open(fpath, "w", encoding="utf-8", newline="") as f:
            f.write(doc if case["chan"] == "-f" else "OTHER *file* content\n")
        args += ["-f", fpath]; file = fpath
    if case["chan"] == "stdin":
        stdin = doc
    if case.get("extra_stdin") is not None:
        stdin = case["extra_stdin"]        # data waiting on stdin although -m / -f is given (a shell loop, a subprocess pipe)
    if case["escape"]: args.append("--escape")
    if case["hardwrap"]: args.append("--hardwrap")
    if case["renderer"] != "html": args += ["-r", case["renderer"]]
    if case["plugins"]:
        args += ["-p"] + case["plugins"]
    if case.get("relative_out"):
        opath = "out%d.html" % idx           # a bare file name: the CLI runs in the temporary directory
    if case.get("inplace") and case["chan"] == "-f" and case["outfile"]:
        opath = fpath          # converting a file in place: the input must be read before the output file is opened
    if case["outfile"]:
        args += ["-o", opath]
    fs_content = None
    if file is not None:
        fs_content = open(fpath, encoding="utf-8", newline="").read()
    rc, so, se = run_cli(args, stdin, tmp)
    written = None
    real_opath = os.path.join(tmp, opath) if not os.path.isabs(opath) else opath
    if os.path.exists(real_opath) and case["outfile"]:
        written = open(real_opath, encoding="utf-8", newline="").read()
    req = ("cli", opt(msg), opt(file), "-" if not case["plugins"] else enc_list(case["plugins"]),
           "1" if case["escape"] else "0", "1" if case["hardwrap"] else "0", opt(opath if case["outfile"] else None),
           enc(case["renderer"]), opt(stdin), opt(fs_content))
    return dict(case=case, args=args, rc=rc, stdout=so, stderr=se[-300:], written=written, req=req, opath=opath)


def compare(ctx, res, plan):
    case = res["case"]
    kind, path, text = exec_plan(plan)
    rep = {"args": res["args"], "stdin": case["doc"] if case["chan"] == "stdin" else None, "doc": case["doc"]}
    sig = "cli-mismatch:%s:%s:%s" % (case["chan"], "file" if case["outfile"] else "stdout", case["renderer"])
    if kind == "usage":
        if res["rc"] == 0:
            ctx.fail(sig, "CLI exited 0 where it should print the usage error", rep)
        return
    if isinstance(text, tuple):
        if res["rc"] == 0:
            ctx.fail(sig, "library raises %s for the equivalent configuration but the CLI exits 0 with %r" % (text[1], res["stdout"][:80]), rep)
        return
    if res["rc"] != 0 and case["chan"] == "-m" and case["doc"].startswith("-") and "expected one argument" in (res["stderr"] or ""):
        ctx.fail("cli-error:message-starting-with-dash", "python -m mistune -m %r exits %d (%s) where the library returns %r" % (case["doc"], res["rc"], (res["stderr"] or "").strip().split("\n")[-1][:100], text[:60]), rep)
        return
    if res["rc"] != 0:
        ctx.fail(sig, "CLI failed (exit %d: %s) where the library returns %r" % (res["rc"], res["stderr"], text[:80]), rep)
        return
    if kind == "stdout":
        if res["stdout"] != text or res["written"] is not None:
            ctx.fail(sig, "CLI stdout %r differs from library text + newline %r" % (res["stdout"][:200], text[:200]), rep)
    else:
        if res["written"] != text or res["stdout"] != "":
            ctx.fail(sig, "CLI output file %r (stdout %r) differs from library text %r" % (res["written"] and res["written"][:200], res["stdout"][:50], text[:200]), rep)


def run_cases(ctx, cs):
    d = common.Driver()
    with tempfile.TemporaryDirectory(prefix="c17_", dir=os.environ.get("TMPDIR")) as tmp:
        with ThreadPoolExecutor(max_workers=14) as ex:
            results = list(ex.map(lambda t: one(t[1], tmp, t[0]), enumerate(cs)))
        plans = d.batch([r["req"] for r in results])
        for r, plan in zip(results, plans):
            compare(ctx, r, plan)
        # channels agree (same doc through -m / -f / stdin under the same flags)
    return len(results)


def run(ctx):
    ctx.broken += common.proof_stage(ctx, THEOREMS)
    cs = cases(ctx)
    n = run_cases(ctx, cs)
    if ctx.broken and not ctx.failures:
        ctx.notes.append("search mode entered")
        n += run_cases(ctx, cases(ctx, big=True))
    ctx.cov.update({
        "evaluations": n, "distinct_nontrivial": len(set((c["escape"], c["hardwrap"], c["renderer"], str(c["plugins"]), c["chan"], c["outfile"]) for c in cs)),
        "rule": "real subprocess `python -m mistune` over {escape}x{hardwrap}x{html,markdown,rst}x%d plugin sets x{-m,-f,stdin}x{stdout,-o} (%s), each compared with the outcome the "
                "Lean model of cli() prescribes, executed with the real library; every flag combination is distinct and non-trivial" % (len(PLUGIN_SETS), "sampled" if ctx.quick() else "complete product"),
        "samples": [cs[0], cs[1]],
        "traces_validated_against_impl": n, "disagreements_checked": n,
        "exhaustive": not ctx.quick(),
    })
    ctx.assumptions += ["stdin/stdout/file encoding fixed to UTF-8 (PYTHONUTF8=1); locale-dependent encodings are outside the check",
                        "argparse behaviour is CPython's; the model starts from the parsed namespace"]


def replay(ctx, path):
    import json
    r = json.load(open(path))["replay"]
    rc, so, se = run_cli(r["args"], r.get("stdin"), "/tmp")
    print("exit", rc); print(so); print(se[-300:])
    return 1
