"""C09 — the speedup plugin never changes the output.

Decided by: Lean theorems at the scanner level (`speedup_chunk_clean`, `lazy_text_first`, `no_rule_at_nonstop`,
`firstChars_sound`): inside the span the speedup text rule claims, no other inline rule can start, for ANY
subject and ANY rule table whose rules can only start with stop characters; kernel-decided obligations on the
REGENERATED tables (`allCfgs_speedupOk`: shape of the text regex, first characters of every inline rule ⊆ its
stop set; `allCfgs_blockFirstOk`; the block fast path is single-line).  The byte-equality of the HTML itself is
not a theorem yet: it is the differential oracle on the implementation (speedup registered last)."""
import re
import common, gen, configs, rxconf

LEVEL = "proof"
THEOREMS = ["Mistune.firstChars_sound", "Mistune.no_rule_at_nonstop", "Mistune.lazy_text_first", "Mistune.stop_class_holds",
            "Mistune.speedup_chunk_clean", "Mistune.allCfgs_speedupOk", "Mistune.allCfgs_blockFirstOk", "Mistune.allCfgs_paragraphSingleLine",
            "Mistune.m_sound", "Mistune.minLen_sound"]

EXTRA_LINES = ["Intro", "a | b", "--- | ---", "1 | 2", "--|--", "| x | y |", "|---|---|", "term", ": def", ":   more", "foo\t", "foo \t ", "bar  ", "baz   ",
               "tab\there", "x\\", "é  ", "日本語", "　wide", "http://a.b/c d", "see https://x.y.", "a*b*c", "a_b_c", "1. one", "10) ten", "- x", "+ y",
               "* z", "=", "==", "---", "===", "~~~", "    code", "\tcode", "a\x0bb", "a\x0cb", "a\x1cb", "a b", "trailing ", " leading", "$x$", "[^1]", "[^1]: n",
               "*[A]: abbr", "A", ">! s", "~sub~", "^sup^", "==m==", "^^i^^", "<b>", "&amp;", "[l](u)", "![i](u)", "`c`", "``c` d``", "word",
               # autolinks and raw constructs after plain text whose first character after "<" is not a letter
               "see www.example.com/docs for", "x www.a.b y", "go WWW.E.COM", "ftp://a.b/c d", "[the documentation ", "](/docs) tail", "![alt ", "](/i.png)", "first", "\t  ", "last", " \t ", "*em ", "* x", "`code ", "` y",
               "[*docs* ](/u)", "![`x` ](/i.png)", "[**b** ][foo]", "[`c`\t](/u) x", "*`a` *", "[<b> ](/u)", "[x ![i](/p) ](/u)", "this is ++new++ text", "a ||b|| c", "x %%y%% z", "see ::w:: and @@v@@", "mail <1abc@example.com> now", "x <_me@e.com> y", "a <+tag@e.com>", "see <#h@e.com>", "t <9@a.b> u", "n <.a@b.c>", "b <!-- c --> d", "p <?php ?> q", "z </a> w", "k <!DOCTYPE x> l", "m <![CDATA[x]]> n"]


STOPS = list("\\><![_*`~^$=") + ["http:", "https:", " \n", ".", "-", "&", ";", "#"]


def chunky(rng):
    """a word that the speedup text rule delivers in several pieces (it stops before each of STOPS)"""
    return "".join(rng.choice(["MAX", "path", "a", "B2", "len", "x", "HT", "ML", "amp", "copy", "lt"]) + (rng.choice(STOPS) if i < k - 1 else "")
                   for k in [rng.randint(2, 4)] for i in range(k))


CHUNK_TEMPLATES = ["*[{k}]: one\n*[css]: two\n*[W3C]: three\n\nuse {k} and css with W3C then {k} again\n", "*[Yahoo!]: y\n*[css]: c\n\nYahoo! css {k}\n", "*[Foo.*]: f\n*[zz]: z\n*[{k}]: k\n\nFoo.* zz {k} E=mc2\n", "*[{k}]: long\n*[{p}]: short\n\nx {k} y {p} z\n", "*[{p}]: short\n*[{k}]: long\n\nx {k} y\n", "*[{k}]: title\n\nuse {k} and {j} here {k}.\n", "*[{k}]: one\n*[{j}]: two\n\n{j} {k}{j}\n", "text[^{k}] more[^{j}]\n\n[^{k}]: note {j}\n\n[^{j}]: n\n",
                   "[{k}]: /u\n\n[{k}] and [x][{k}] and [{j}]\n", "plain {k} &{k}; &amp{j}; {j}\n", "*{k}* **{j}** `{k}` [{k}](/{j})\n", "| {k} | {j} |\n|---|---|\n| {j} | {k} |\n",
                   "{k}\n: {j}\n", "# {k} {j}\n\n{k}\n===\n", "- [ ] {k}\n- {j}\n", "<{k}> <a {j}> http://{k}/{j} {k}@{j}.com\n", "~{k}~ ^{j}^ =={k}== ~~{j}~~ ^^{k}^^ >!{j}!< ${k}$ [{k}({j})]\n"]


def docs(ctx, n):
    out = []
    for _ in range(n):
        r = ctx.rng.random()
        if r < 0.12:
            k = chunky(ctx.rng)
            pre = k[:max(1, min(len(k) - 1, ctx.rng.randint(1, 4)))]          # a proper prefix of k (an abbreviation key that is a prefix of another)
            out.append(ctx.rng.choice(CHUNK_TEMPLATES).replace("{k}", k).replace("{j}", chunky(ctx.rng)).replace("{p}", pre))
        elif r < 0.5:
            k = ctx.rng.randint(1, 7)
            lines = [ctx.rng.choice(EXTRA_LINES) if ctx.rng.random() < 0.8 else gen.md_line(ctx.rng, 5) for _ in range(k)]
            for i in range(len(lines)):
                if ctx.rng.random() < 0.15:
                    lines[i] = ""
                elif ctx.rng.random() < 0.10:
                    # a line of white space only that is not a Markdown blank line (NBSP, ideographic / em space, separators, NEL)
                    lines[i] = "".join(ctx.rng.choice(["\u00a0", "\u3000", "\u2003", "\x1c", "\x1d", "\x1f", "\x85", "\u2028", "\ufeff", "\u200b"]) for _ in range(ctx.rng.randint(1, 3)))
                elif ctx.rng.random() < 0.15:
                    lines[i] = ctx.rng.choice(["> ", "- ", "  ", "1. "]) + lines[i]
                if ctx.rng.random() < 0.2:
                    lines[i] += ctx.rng.choice([" ", "  ", "\t", " \t", "\\", "   ", "  \\", "   \\", " \\", "\\  ", "\t\\", "  \\\\", "\\\\"])
            out.append("\n".join(lines) + ctx.rng.choice(["\n", "", "\n\n"]))
        else:
            out.append(gen.md_any(ctx.rng, 7))
    return out


def oracle(ctx, ds, n_cfg):
    import mistune
    n = 0
    base_plugins = [p for p in configs.PLUGINS if p != "speedup"]
    pairs = [(["strikethrough", "footnotes", "table"], False, False), (["table"], False, False), ([], False, False), ([], True, False), (base_plugins, False, True), (base_plugins, True, False)]
    for _ in range(n_cfg):
        pl = ctx.rng.sample(base_plugins, ctx.rng.randint(0, len(base_plugins)))
        pairs.append((pl, ctx.rng.random() < 0.4, ctx.rng.random() < 0.5))
    mds = []
    for pl, hw, esc in pairs:
        a = mistune.create_markdown(escape=esc, hard_wrap=hw, plugins=pl)
        # speedup is added at a random position of the list; the claim excludes the two orders in which speedup, registered BEFORE url / spoiler,
        # shadows their start characters on the unchanged tree (DESIGN §7 C09): there it is placed after them
        k = ctx.rng.randint(0, len(pl)) if ctx.rng.random() < 0.5 else len(pl)
        late = [i for i, p in enumerate(pl) if p in ("url", "spoiler")]
        if late:
            k = max(k, late[-1] + 1)
        b = mistune.create_markdown(escape=esc, hard_wrap=hw, plugins=pl[:k] + ["speedup"] + pl[k:])
        mds.append((pl[:k] + ["<speedup>"] + pl[k:] if k < len(pl) else pl, hw, esc, a, b))
    mds.append((["strikethrough", "footnotes", "table"], False, False, mistune.create_markdown(escape=False, plugins=["strikethrough", "footnotes", "table"]), mistune.html))
    for d in ds:
        for pl, hw, esc, a, b in ctx.rng.sample(mds, 3) + [mds[0], mds[-1]]:
            n += 1
            try:
                x = a(d)
            except RecursionError:
                continue
            except Exception as e:
                x = ("EXC", type(e).__name__)
            try:
                y = b(d)
            except RecursionError:
                continue
            except Exception as e:
                y = ("EXC", type(e).__name__)
            if x != y:
                import re as _re
                keys = _re.findall(r"^ {0,3}\*\[([^\]\n]+)\]:", d, _re.M)
                # the known finding: the LONGER key is defined before a key that is its prefix (definition order = alternation order)
                pl = [p for p in pl if p != "<speedup>"]
                prefix_keys = "abbr" in pl and any(a != b and b.startswith(a) and keys.index(b) < keys.index(a) for a in keys for b in keys)
                kind = "abbr-prefix-key" if prefix_keys else "block" if (isinstance(x, str) and isinstance(y, str) and x.count("<p>") != y.count("<p>")) or "<table" in str(x) + str(y) or "<dl" in str(x) + str(y) else "inline"
                ctx.fail("speedup-differs:%s:%s" % (kind, "hardwrap" if hw else "std"),
                         "plugins %s hard_wrap=%s: output differs with speedup for %r" % (pl, hw, d),
                         {"plugins": pl, "hard_wrap": hw, "escape": esc, "doc": d, "without": x, "with": y})
    return n


def sampler_part(ctx, n_per_rule):
    """Strings drawn from the regular expressions of every inline and block rule of every plugin (harness/rxsample.py), placed after ordinary words (where the speedup text
    rule is in the middle of a chunk) and at line starts after a plain line (where its paragraph rule is collecting lines): with and without speedup.  This is the directed
    search for a rule whose start the fast paths do not stop at (the obligation `allCfgs_speedupOk` is the proof side of the same thing)."""
    import mistune, rxsample
    n = 0
    for P in [None] + [p for p in configs.PLUGINS if p != "speedup"]:
        pl = [P] if P else []
        try:
            a = mistune.create_markdown(plugins=pl or None)
            b = mistune.create_markdown(plugins=pl + ["speedup"])
        except Exception:
            continue
        pats = [(k, v, "inline") for k, v in a.inline.specification.items()] + [(k, v, "block") for k, v in a.block.specification.items()]
        for rn, pat, side in pats:
            if P and rn in ("text", "paragraph"):
                continue
            for smp in rxsample.samples(pat, ctx.rng, n_per_rule, re.M):
                if "\n\n" in smp.strip("\n"):
                    continue
                forms = ["this is %s text\n", "word%s\n", "Intro words\n%s\nmore words\n", "x %s\n"] if side == "inline" else ["Intro words\n%s\nmore\n", "Intro\n%s", "a b c\n\n%s\nd\n"]
                doc = ctx.rng.choice(forms) % smp
                n += 1
                try:
                    x, y = a(doc), b(doc)
                except Exception:
                    continue
                if x != y:
                    keys = re.findall(r"^ {0,3}\*\[([^\]\n]+)\]:", doc, re.M)
                    if P == "abbr" and any(k1 != k2 and k2.startswith(k1) and keys.index(k2) < keys.index(k1) for k1 in keys for k2 in keys):
                        continue
                    ctx.fail("speedup-differs:%s:std" % ("inline" if side == "inline" else "block"), "plugins %s: output differs with speedup for %r (a string matching rule %s)" % (pl, doc, rn),
                             {"plugins": pl, "hard_wrap": False, "escape": True, "doc": doc, "without": x, "with": y})
    return n


def api_part(ctx):
    """the same comparison through mistune.markdown(), whose converters are cached by argument: random sequences of calls in a
    fresh interpreter; any two calls of a sequence with the same document and escape flag and plugin lists L and L + ['speedup']
    must return the same HTML"""
    import subprocess, itertools, os, sys, json
    docs = ["a | b\n--|--\n: def\n", "see https://example.com/page now and <b>x</b>\n", "term\n: d\n\na | b\n--|--\n1 | 2\n", "x ~~y~~ http://a.b c\n", "Intro\nName | Value\n---- | -----\na | b\n"]
    bases = [("table", "def_list"), ("def_list", "table"), ("url", "strikethrough"), ("strikethrough", "url"), ("table", "url", "def_list"), ("def_list", "url", "table")]
    here = os.path.dirname(os.path.dirname(os.path.abspath(__file__)))
    n = 0
    procs = []
    pairs = [(("table", "def_list"), ("def_list", "table")), (("url", "strikethrough"), ("strikethrough", "url")), (("table", "url", "def_list"), ("def_list", "url", "table"))]
    plans = []
    for A, B in pairs:
        for d in docs:
            for esc in (True, False):
                # the first call for each plugin SET fixes whatever a cache keyed too coarsely would remember
                plans.append([[d, {"plugins": list(A), "escape": esc}], [d, {"plugins": list(B) + ["speedup"], "escape": esc}],
                              [d, {"plugins": list(B), "escape": esc}], [d, {"plugins": list(A) + ["speedup"], "escape": esc}]])
                # an earlier call with the same plugins in an order outside the claim (speedup first): not compared itself
                plans.append([["warm up\n", {"plugins": ["speedup"] + list(A), "escape": esc}], [d, {"plugins": list(A) + ["speedup"], "escape": esc}], [d, {"plugins": list(A), "escape": esc}]])
    if ctx.quick():
        plans = [pl for pl in plans if pl[-1][0] in docs[:2]]          # every pair, both escape settings, both plan kinds, two documents
    for calls in plans:
        extra = []
        for _ in range(ctx.rng.randint(0, 4)):
            P = list(ctx.rng.choice(bases)) + (["speedup"] if ctx.rng.random() < 0.5 else [])
            extra.append([ctx.rng.choice(docs), {"plugins": P, "escape": ctx.rng.random() < 0.5}])
        calls = calls + extra
        pr = subprocess.Popen([sys.executable, "-B", os.path.join(here, "apiseq.py")], stdin=subprocess.PIPE, stdout=subprocess.PIPE, stderr=subprocess.PIPE, text=True)
        procs.append((calls, pr, json.dumps({"src": common.repo_src(), "calls": calls})))
    for calls, pr, payload in procs:
        try:
            so, _ = pr.communicate(payload, timeout=120)
            res = json.loads(so)
        except Exception:
            continue
        seen = {}
        for (d, kw), r in zip(calls, res):
            n += 1
            base = tuple(p for p in kw["plugins"] if p != "speedup")
            if kw["plugins"] and kw["plugins"][-1] == "speedup" or "speedup" not in kw["plugins"]:
                k = (d, kw["escape"], base)
                if k in seen and seen[k][0] != r:
                    ctx.fail("speedup-differs:markdown()", "in one interpreter, mistune.markdown(%r, escape=%s) with plugins %r and with %r returned different HTML (calls so far: %d)" % (d, kw["escape"], seen[k][1], kw["plugins"], len(calls)),
                             {"plugins": list(base), "hard_wrap": False, "escape": kw["escape"], "doc": d, "without": seen[k][0], "with": r, "api": "markdown()", "calls": calls})
                    break
                seen.setdefault(k, (r, kw["plugins"]))
    return n


def replay_known(ctx):
    import mistune
    for k in ctx.known:
        ex = k.get("example") or {}
        if "doc" not in ex:
            continue
        a = mistune.create_markdown(escape=ex["escape"], hard_wrap=ex["hard_wrap"], plugins=ex["plugins"])
        b = mistune.create_markdown(escape=ex["escape"], hard_wrap=ex["hard_wrap"], plugins=ex["plugins"] + ["speedup"])
        x, y = a(ex["doc"]), b(ex["doc"])
        if x != y:
            ctx.fail("speedup-differs:abbr-prefix-key:std", "stored example of a known finding: output differs with speedup for %r" % ex["doc"], dict(ex, without=x, **{"with": y}))
        else:
            ctx.notes.append("a stored known-finding example no longer fails: %r" % ex["doc"])


def run(ctx):
    ctx.broken += common.proof_stage(ctx, THEOREMS)
    # the concrete Lean parser model transcribes the plugins (speedup included): full-tree correspondence on their configurations
    common.plugin_model_tie(ctx, 200 if ctx.quick() else 2500, ["all", "all-speedup", "only-speedup", "preset"])
    replay_known(ctx)
    n_rx, n_m, rx_broken, unsup = rxconf.run(ctx, per_pattern=15 if ctx.quick() else 150)
    ctx.broken += rx_broken
    ds = docs(ctx, 2500 if ctx.quick() else 40000)
    sweep = gen.slot_sweep()
    ctx.rng.shuffle(sweep)
    ds += sweep[: (800 if ctx.quick() else len(sweep))]
    n = oracle(ctx, ds, 8 if ctx.quick() else 60)
    n += api_part(ctx)
    n += sampler_part(ctx, 25 if ctx.quick() else 300)
    if ctx.broken and not ctx.failures:
        ctx.notes.append("search mode entered: " + "; ".join(ctx.broken)[:300])
        n += oracle(ctx, docs(ctx, 30000), 40)
    ctx.cov.update({
        "evaluations": n, "distinct_nontrivial": len(set(d for d in ds if "\n" in d.strip("\n"))),
        "rule": "seeded documents biased to what the fast paths special-case (plain lines followed by table/def-list starts, trailing blanks/tabs/backslashes before newlines, "
                "unicode spaces, URLs, every plugin's markers), converted with and without speedup (registered last) under the shipped preset, mistune.html itself and random plugin "
                "subsets x hard_wrap x escape; non-trivial = more than one line",
        "samples": ds[:2], "regex_conformance_checks": n_rx,
    })
    ctx.assumptions += ["claim is for speedup registered after the other plugins (as in mistune.html and the CLI default); registered before url/spoiler its text pattern is computed too early — recorded in DESIGN.md, outside the claim",
                        "byte-equality of the HTML is established by the differential oracle; the theorems cover the scanner level (no rule can start inside a claimed chunk)"]


def replay(ctx, path):
    import json, mistune
    r = json.load(open(path))["replay"]
    a = mistune.create_markdown(escape=r["escape"], hard_wrap=r["hard_wrap"], plugins=r["plugins"])
    b = mistune.create_markdown(escape=r["escape"], hard_wrap=r["hard_wrap"], plugins=r["plugins"] + ["speedup"])
    x, y = a(r["doc"]), b(r["doc"])
    print(repr(x)); print(repr(y))
    return 1 if x != y else 0
