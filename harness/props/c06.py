"""C06 — renderers produce a faithful, well-formed image of the token tree.

Decided by (Lean): C18 (`escape` is the per-character map, invertible: every escaped leaf can be found again in the
output) and the second-pass theorems; the clauses themselves are evaluated on the implementation: (a)/(b)
well-formedness and content model of escaped HTML with html.parser as reference tokenizer; (c) every text / code /
raw-HTML leaf appears, escaped, in document order; (d) the Markdown and RST renderers emit every text and code
leaf; (e) rendering a token list obtained with renderer=None gives the one-step string.  (A template-level
theorem over extracted render methods is planned; today the clauses are tested.)"""
import re, json, copy
from html.parser import HTMLParser
import common, gen, configs

LEVEL = "other"
THEOREMS = ["Mistune.escape_eq_flatMap", "Mistune.escape_roundtrip", "Mistune.iterRender_length",
            "Mistune.evalTmpl_pass", "Mistune.evalTmpl_leaf", "Mistune.leaves_in_order", "Mistune.leaves_in_order_doc", "Mistune.templates_passTypes", "Mistune.templates_leafOps",
            "Mistune.templates_none_opaque", "Mistune.renderTok_balanced", "Mistune.render_balanced", "Mistune.templates_balOk", "Mistune.templates_strict", "Mistune.templates_nodup", "Mistune.tagTable_wf",
            "Mistune.striptagsRx_is_expected", "Mistune.stripAgrees_generated", "Mistune.render_balanced_closed"]

VOID = {"br", "hr", "img", "input"}
BLOCK_EL = {"p", "div", "ul", "ol", "li", "blockquote", "pre", "table", "thead", "tbody", "tr", "td", "th", "h1", "h2", "h3", "h4", "h5", "h6", "hr", "dl", "dt", "dd", "section",
            "figure", "figcaption", "details", "summary"}
NO_BLOCK_INSIDE = {"p", "h1", "h2", "h3", "h4", "h5", "h6"}


class WF(HTMLParser):
    def __init__(self):
        super().__init__(convert_charrefs=False)
        self.stack = []
        self.err = None

    def bad(self, why):
        if self.err is None:
            self.err = why

    def handle_starttag(self, tag, attrs):
        if tag in VOID:
            return
        parent = self.stack[-1] if self.stack else None
        if tag == "li" and parent not in ("ul", "ol"):
            self.bad("content:li outside list (inside %s)" % parent)
        if parent in ("ul", "ol") and tag != "li":
            self.bad("content:%s directly inside %s" % (tag, parent))
        if tag in BLOCK_EL and any(p in NO_BLOCK_INSIDE for p in self.stack):
            self.bad("content:block element %s inside paragraph/heading" % tag)
        self.stack.append(tag)

    def handle_startendtag(self, tag, attrs):
        if tag not in VOID:
            self.bad("balance:self-closed non-void %s" % tag)

    def handle_endtag(self, tag):
        if tag in VOID:
            return
        if not self.stack or self.stack[-1] != tag:
            self.bad("balance:</%s> closes %s" % (tag, self.stack[-1] if self.stack else "nothing"))
            if tag in self.stack:
                while self.stack and self.stack.pop() != tag:
                    pass
            return
        self.stack.pop()


def well_formed(out):
    p = WF()
    try:
        p.feed(out); p.close()
    except Exception as e:
        return "parser:%r" % e
    if p.err:
        return p.err
    if p.stack:
        return "balance:unclosed %s" % p.stack[-1]
    return None


def leaves(tokens, out, alt=False):
    for t in tokens:
        ty = t["type"]
        if "raw" in t and ty in ("text", "codespan", "inline_html", "block_code", "block_html"):
            out.append((ty, t["raw"]))
        if ty == "image" and not alt:
            # in HTML the description goes through striptags into the alt attribute (escaping: C02); its text and code leaves still have to
            # arrive there, in order, as words (tags — also those of inline HTML leaves — are what striptags removes)
            sub = []
            leaves(t.get("children") or [], sub, True)
            out += [("altwords", raw) for ty2, raw in sub if ty2 in ("text", "codespan")]
            continue
        if "children" in t:
            leaves(t["children"], out, alt)


def in_order(out, pieces):
    pos = 0
    for p in pieces:
        if not p:
            continue
        i = out.find(p, pos)
        if i < 0:
            return p
        pos = i + len(p)
    return None


WORD = re.compile(r"[^\W_]+")          # Unicode words (a percent-encoded or entity-encoded copy of a word is not the word)


def oracle(ctx, docs):
    import mistune
    from mistune.util import escape, safe_entity
    from mistune.renderers.markdown import MarkdownRenderer
    from mistune.renderers.rst import RSTRenderer
    cfgs = [configs.C("all-esc", plugins=[p for p in configs.PLUGINS]), configs.C("core"), configs.C("all-fenced", plugins=configs.PLUGINS, directives="fenced"),
            configs.C("all-rst", plugins=configs.PLUGINS, directives="rst"), configs.C("all-noesc", escape=False, plugins=configs.PLUGINS), configs.C("preset", escape=False, plugins=configs.PRESET)]
    mds = []
    for c in cfgs:
        a = dict(c); a["renderer"] = "ast"
        mds.append((c, configs.make(c), configs.make(a)))
    mdr = mistune.create_markdown(renderer=MarkdownRenderer())
    rst = mistune.create_markdown(renderer=RSTRenderer())
    ast_core = mistune.create_markdown(renderer=None)
    n = 0
    for d in docs:
        for c, hm, ast in ctx.rng.sample(mds, 2):
            try:
                out = hm(d)
                toks, state = ast.parse(d)
            except RecursionError:
                continue
            except Exception:
                continue
            n += 1
            rep = {"config": c, "doc": d}
            esc = c.get("escape", True)
            if esc:
                w = well_formed(out)
                if w:
                    # the unescaped text of block_error (known finding of C02) also breaks well-formedness: attribute the failure to it
                    # only if the output is well-formed once the error blocks' own content is taken out
                    sig = "html-" + w.split(" ")[0]
                    if 'class="error"' in out and well_formed(re.sub(r'(<div class="error"><pre>).*?(</pre></div>\n)', r"\1\2", out, flags=re.S)) is None:
                        sig += ":inside-block_error"
                    ctx.fail(sig, "escaped HTML is not a well-formed fragment (%s) for %r under %s" % (w, d, c["name"]), dict(rep, output=out[:500]))
                    continue
            lv = []
            leaves(toks, lv)
            pieces = []
            for ty, raw in lv:
                if ty == "altwords":
                    pieces += WORD.findall(raw)
                elif ty == "block_html":
                    pieces.append(escape(raw.strip()) if esc else raw)
                elif ty == "inline_html":
                    pieces.append(escape(raw) if esc else raw)
                elif ty == "text":
                    pieces.append(escape(raw) if esc else safe_entity(raw))
                else:
                    pieces.append(escape(raw))
            miss = in_order(out, pieces)
            if miss is not None:
                ctx.fail("leaf-missing:%s" % ("esc" if esc else "noesc"), "a leaf of the token tree does not appear (escaped, in document order) in the HTML: %r; document %r under %s" % (miss[:60], d, c["name"]), dict(rep, output=out[:500]))
                continue
            # (e) two-step == one-step
            try:
                two = hm.renderer(copy.deepcopy(toks), state)
            except Exception as e:
                ctx.fail("two-step-exception", "rendering the token list of a renderer=None run raised %r" % e, rep); continue
            if two != out and not (c.get("directives") and "toc" in d):
                # (the toc directive registers itself only when an HTML renderer is present — documented — so a renderer=None
                #  run of a document that uses it has a different token list by design)
                ctx.fail("two-step-differs", "rendering the token list obtained without a renderer differs from one-step conversion for %r under %s" % (d, c["name"]), dict(rep, one=out[:300], two=two[:300]))
        # (d) Markdown / RST renderers on core syntax
        try:
            toks, st = ast_core.parse(d)
            mo, ro = mdr(d), rst(d)
        except RecursionError:
            continue
        except Exception:
            continue
        n += 1
        # (e) for the Markdown and RST renderers: a real token list rendered in a second step
        for nm, conv, one in (("Markdown", mdr, mo), ("RST", rst, ro)):
            try:
                two = conv.renderer(copy.deepcopy(toks), st)
            except Exception as e:
                ctx.fail("two-step-exception:" + nm, "the %s renderer raised %r on the token list of a renderer=None run of %r" % (nm, e, d), {"doc": d}); continue
            if two != one:
                ctx.fail("two-step-differs:" + nm, "the %s renderer gives a different string for the token list obtained without a renderer than one-step conversion, for %r" % (nm, d),
                         {"doc": d, "one": one[:300], "two": two[:300]})
        lv = []
        leaves(toks, lv, alt=True)
        want = []
        for ty, raw in lv:
            if ty in ("text", "codespan", "block_code"):
                want += WORD.findall(raw)
        miss = in_order(mo, want)
        if miss is not None:
            ctx.fail("markdown-renderer-leaf", "Markdown renderer output lacks the word %r of a text/code leaf (in order); document %r" % (miss, d), {"doc": d, "output": mo[:400]})
        from collections import Counter
        lack = {w: k for w, k in Counter(want).items() if ro.count(w) < k}     # substring counts: RST drops inline HTML, so words may join
        if lack:
            ctx.fail("rst-renderer-leaf", "RST renderer output lacks words %r of text/code leaves; document %r" % (lack, d), {"doc": d, "output": ro[:400]})
    return n


def replay_known(ctx):
    for k in ctx.known:
        ex = k.get("example") or {}
        if "doc" not in ex:
            continue
        out = configs.make(ex["config"])(ex["doc"])
        w = well_formed(out)
        if w:
            sig = "html-" + w.split(" ")[0]
            if 'class="error"' in out and well_formed(re.sub(r'(<div class="error"><pre>).*?(</pre></div>\n)', r"\1\2", out, flags=re.S)) is None:
                sig += ":inside-block_error"
            ctx.fail(sig, "stored example of a known finding: %s for %r" % (w, ex["doc"]), {"config": ex["config"], "doc": ex["doc"], "output": out[:300]})
        else:
            ctx.notes.append("a stored known-finding example no longer fails: %r" % ex["doc"])


def focused(rng):
    """constructs whose rendering does string surgery or bookkeeping: footnote items, repeated images, task lists, tables"""
    w = lambda: rng.choice(gen.WORDS + ["map", "top", "a/", "p", "help"])
    r = rng.random()
    if r < 0.12:
        # notes whose last lines look like a block (the item renderer cuts the closing "</p>" off the rendered text)
        tail = rng.choice(["  - one\n  - two\n", "  > quoted %s\n" % w(), "  1. %s\n" % w(), "\n    ```\n    %s\n    ```\n" % w(), "  ***\n", "\n    | a |\n    |---|\n    | %s |\n" % w(), "  # %s\n" % w(), "\n      indented %s\n" % w()])
        return "text[^1] %s\n\n[^1]: see %s\n%s\nafter\n" % (w(), w(), tail)
    if r < 0.4:
        end = rng.choice([w(), "*%s*" % w(), "`%s`" % w(), "[%s](/u)" % w(), "^%s^" % w(), "~~%s~~" % w(), w() + ".", "<b>%s</b>" % w(), w() + " /", w() + "p"])
        body = "text[^1] and[^k]\n\n[^1]: see the %s %s\n\n[^k]: %s\n\n    second %s\n" % (w(), end, w(), end)
        return body
    if r < 0.6:
        u = rng.choice(["/logo.png", "/a.png"])
        return "before ![%s %s](%s) mid ![%s](%s) and ![%s](%s \"t\") end\n" % (w(), w(), u, w(), u, w(), rng.choice([u, "/b.png"]))
    if r < 0.75:
        return "- [ ] %s\n- [x] %s\n\n  %s\n- plain %s\n" % (w(), w(), w(), w())
    if r < 0.9:
        return "| %s | %s |\n|:--|--:|\n| %s | `%s` |\n" % (w(), w(), w(), w())
    return "%s\n: %s\n\n  %s\n" % (w(), w(), w())


EDGE_DOCS = ["x[^1]\n\n[^1]: \n", "x[^1] y[^2]\n\n[^1]:\t\n[^2]: t\n", ".. image:: p.png\n   :target: javascript:x\n", "```{image} p.png\n:target: vbscript:y\n:alt: a\n```\n",
             ".. figure:: p.png\n   :target: file:///z\n\n   cap\n\n   legend\n", "```{figure} p.png\n:target: data:text/html,x\n:align: left\n\ncap\n```\n", "[![logo](logo.png) Project home](https://example.com/)\n",
             "- [ ] \n- [x]\n", "| a |\n|---|\n", "term\n: \n", "> \n", "#\n", "1. \n", "``` \n```\n", "*[A]: \n\nA\n", "$$\n$$\n", ">! \n", "[^1]: n\n\n[^1]\n\n.. toc::\n"]


def run(ctx):
    ctx.broken += common.proof_stage(ctx, THEOREMS)
    replay_known(ctx)
    docs = [gen.md_any(ctx.rng, 8) if ctx.rng.random() < 0.8 else focused(ctx.rng) for _ in range(1800 if ctx.quick() else 30000)]
    docs += [gen.bracket_soup(ctx.rng) for _ in range(1500 if ctx.quick() else 25000)]
    sweep = gen.slot_sweep()
    ctx.rng.shuffle(sweep)
    docs = EDGE_DOCS * 3 + docs + sweep[: (900 if ctx.quick() else len(sweep))]
    # the tie of the template model the theorems speak about (probing + exact equality of the model's rendering with the HTML)
    import tmpltie
    tie_cfgs = [configs.C("core"), configs.C("all", plugins=configs.PLUGINS), configs.C("all-fenced", plugins=configs.PLUGINS, directives="fenced"), configs.C("all-rst", plugins=configs.PLUGINS, directives="rst")]
    n0 = tmpltie.stage(ctx, docs[: (300 if ctx.quick() else 3000)], tie_cfgs)
    n = n0 + oracle(ctx, docs)
    if ctx.broken and not ctx.failures:
        ctx.notes.append("search mode entered")
        n += oracle(ctx, [gen.md_any(ctx.rng, 8) for _ in range(20000)])
    ctx.cov.update({
        "evaluations": n, "distinct_nontrivial": len(set(docs)),
        "explanation": "clauses (a)-(e) evaluated on the implementation with html.parser as reference tokenizer; Lean supplies the escape algebra (C18) and the second-pass theorems; tested, not proved",
        "rule": "seeded Markdown documents under {all plugins, core, both directive syntaxes} x escape on/off: balance and content model of escaped HTML, escaped leaves in document order, two-step == one-step rendering; "
                "Markdown/RST renderers on core syntax: every word of every text/code leaf present (in order for Markdown)",
        "samples": docs[:2],
    })
    ctx.assumptions += ["html.parser as reference tokenizer", "template-level theorem planned; today tested"]


def replay(ctx, path):
    r = json.load(open(path))["replay"]
    print(json.dumps(r, indent=1)[:3000])
    return 1
