"""C18 — escaping and key utilities are safe and stable.

Decided by: theorems of MistuneProofs.C18 / C18Quote / C18Unikey / Oblig.Unicode about the Lean model of
util.py for ALL strings, tied to the code by running model and implementation on the same strings
(exhaustive over a special alphabet + random Unicode) and comparing outputs exactly."""
import html, urllib.parse, time
import common, gen
from common import enc, dec

LEVEL = "proof"

THEOREMS = [
    "Mistune.escape_eq_flatMap", "Mistune.escape_no_specials", "Mistune.escape_roundtrip",
    "Mistune.safeEntity_no_specials",
    "Mistune.quote_ok", "Mistune.escapeUrl_attr_safe", "Mistune.quote_idem", "Mistune.quote_pct_unchanged",
    "Mistune.escapeUrl_idem",
    "Mistune.unikey_idem", "Mistune.unikey_ws_run", "Mistune.unikey_ws_lead", "Mistune.unikey_ws_trail",
    "Mistune.unikey_case", "Mistune.stripWs_joinSp",
    "Mistune.foldTableGood_holds", "Mistune.foldOk_py", "Mistune.unikeyPy_idem", "Mistune.unikeyPy_ws_run",
    "Mistune.unikeyPy_ws_lead", "Mistune.unikeyPy_ws_trail", "Mistune.unikeyPy_case",
    "Mistune.lowerTree_good", "Mistune.upperTree_good", "Mistune.titleTree_good", "Mistune.swapcaseTree_good",
    "Mistune.casefoldTree_good",
]

URL_OK = set("ABCDEFGHIJKLMNOPQRSTUVWXYZabcdefghijklmnopqrstuvwxyz0123456789_.-~:/?#@!$&()*+,;=%")


def inputs(ctx, big=False):
    k = 4 if (big or not ctx.quick()) else 3
    xs = list(gen.exhaustive(gen.SPECIAL20, k))
    n_rand = 60000 if (big or not ctx.quick()) else 6000
    for _ in range(n_rand):
        xs.append(gen.rand_unicode(ctx.rng, 20) if ctx.rng.random() < 0.5 else gen.rand_mixed(ctx.rng))
    # a percent sign next to digits of other scripts (\\d matches them, [0-9] does not), percent runs, and white space of every kind
    digits = ["٠", "١", "９", "１", "०", "a", "F", "0", "9"]
    for _ in range(6000 if (big or not ctx.quick()) else 600):
        xs.append("".join(ctx.rng.choice(["%", "%", "/", "x"] + digits) for _ in range(ctx.rng.randint(1, 7))))
    spaces = [" ", "\t", "\n", "\x0b", "\x0c", "\x1c", "\x1f", "\x85", "\xa0", "\u1680", "\u2000", "\u2003", "\u200a", "\u2028", "\u2029", "\u202f", "\u205f", "\u3000"]
    for _ in range(6000 if (big or not ctx.quick()) else 600):
        xs.append("".join(ctx.rng.choice(["foo", "Bar", "ß", "x"]) + ctx.rng.choice(spaces) * ctx.rng.randint(0, 2) for _ in range(ctx.rng.randint(1, 4))))
    # boundary lengths (labels are limited to 999 characters by CommonMark, not by unikey), long runs
    for k in (254, 255, 256, 499, 500, 501, 997, 998, 999, 1000, 1001, 2048):
        xs += ["a" * k + " b", "x" * k + "\u00df", " " * k + "a", "A" * k, "\u0130" * (k // 8) + " i"]
    # letters that match [a-z] case-insensitively in a str pattern although they are not ASCII (Kelvin sign, long s, dotless / dotted i)
    # internationalised hosts with unsafe ASCII in the authority; labels with character references whose upper-case form is no reference
    xs += ["http://b\u00fccher.de\" onmouseover=\"alert(1)", "http://m\u00fcnchen.example <draft>", "https://\u00e9.com\\docs", "//\u65e5\u672c.jp\"x", "http://\u00fc.de/\"", "HTTP://\u00dc.DE'<",
           "&auml;rger", "&AUML;RGER", "foo&nbsp;bar", "a&#32;&#32;b", "x &amp;lt; y", "&szlig;", "&eacute;T&Eacute;", "&nbsp;", "&#x41;&#97;", "&Auml;&auml;"]
    # URLs assembled from their RFC 3986 components (IPv6 / IPvFuture literals with zone ids, user info, ports, IDN hosts, encoded octets),
    # with an unsafe character dropped into each component in turn
    for _ in range(20000 if (big or not ctx.quick()) else 3000):
        xs.append(gen.url_struct(ctx.rng))
    # characters with special case mappings (multi-character upper / lower forms, final sigma, iota subscript, dotted / dotless i) next to combining marks of
    # several combining classes: any re-ordering or re-composition step in front of the case folding shows here
    special = [chr(i) for i in range(0x80, 0x2FFF) if len(chr(i).upper()) > 1 or len(chr(i).lower()) > 1 or chr(i).upper().lower() != chr(i).lower() or chr(i).lower().upper() != chr(i).upper()]
    marks = ["\u0301", "\u0345", "\u0323", "\u0308", "\u05b0", "\u093c", "\u3099", "\u0342", "\u0313"]
    pick = special if (big or not ctx.quick()) else ctx.rng.sample(special, min(len(special), 160))
    for ch in pick:
        for mk in (marks if (big or not ctx.quick()) else ctx.rng.sample(marks, 3)):
            xs += [ch + mk + "\u03b4\u03c9", mk + ch, "a " + ch + mk + mk[::-1] + " b"]
    xs += [chr(i) + "\u0301\u03b4\u03c9" for i in range(0x1F80, 0x1FFD)] + ["\u0345\u0301x", "x\u0345\u0301", "\uff21\uff42", "\ufb01 \ufb03", "\u2126\u00b5\u212b", "e\u0301 \u00e9"]
    for ch in ("\u212a", "\u017f", "\u0131", "\u0130"):
        xs += ["data:image/png;base64,iVBORw0%sGgo=" % ch, "http://e%sample.com/%s" % (ch, ch), "DATA:IMAGE/PNG;BASE64,%s" % ch, "javascript%s:x" % ch, "%%4%s" % ch, ch + "&amp;" + ch]
    return xs


def oracle(ctx, util, xs):
    """The property itself, evaluated on the implementation."""
    n = 0
    for s in xs:
        n += 1
        # both orders of the two quoting modes: each call must satisfy the property whatever was called before
        for q in ((True, False) if n % 2 else (False, True, False)):
            e = util.escape(s, quote=q)
            if "<" in e or ">" in e or (q and '"' in e):
                ctx.fail("escape-special", "escape(%r, quote=%s) contains a raw special" % (s, q), {"fn": "escape", "s": s, "quote": q, "out": e})
            if html.unescape(e) != s:
                ctx.fail("escape-roundtrip", "html.unescape(escape(%r, quote=%s)) != input" % (s, q), {"fn": "escape", "s": s, "quote": q, "out": e})
        u = util.escape_url(s)
        if not set(u) <= URL_OK:
            ctx.fail("escape_url-alphabet", "escape_url(%r) has a character outside the URL-safe set" % s, {"fn": "escape_url", "s": s, "out": u})
        if util.unescape(u) == u and util.escape_url(u) != u:
            ctx.fail("escape_url-idem", "escape_url not idempotent on %r" % s, {"fn": "escape_url", "s": s, "out": u, "second": util.escape_url(u)})
        se = util.safe_entity(s)
        if "<" in se or ">" in se or '"' in se:
            ctx.fail("safe_entity-special", "safe_entity(%r) contains a raw special" % s, {"fn": "safe_entity", "s": s, "out": se})
        k = util.unikey(s)
        if util.unikey(k) != k:
            ctx.fail("unikey-idem", "unikey not idempotent on %r" % s, {"fn": "unikey", "s": s, "out": k})
        ws_variants = ["  " + s.replace(" ", " \t\n ") + "\n"]
        if " " in s.strip():
            # a run of ANY white space (str.isspace) between words is one separator
            ws_variants += [s.replace(" ", w) for w in ("\xa0", "\u3000", "\u2028", " \x85 ", "\u2003\u2003", "\x1c")]
        for v in [s.lower(), s.upper(), s.swapcase()] + ws_variants:
            if util.unikey(v) != k:
                ctx.fail("unikey-variant", "unikey differs between %r and its case/whitespace variant %r" % (s, v), {"fn": "unikey", "s": s, "variant": v})
    # percent-encoded octets are left alone
    for _ in range(2000 if ctx.quick() else 20000):
        s = "".join(ctx.rng.choice(["%%%02X" % ctx.rng.randint(0, 255), "%%%02x" % ctx.rng.randint(0, 255), "a", "/", "?", "=", "-"]) for _ in range(ctx.rng.randint(1, 8)))
        n += 1
        if util.escape_url(s) != s:
            ctx.fail("escape_url-pct", "escape_url changes the percent-encoded %r" % s, {"fn": "escape_url", "s": s, "out": util.escape_url(s)})
    return n


def correspondence(ctx, util, xs):
    d = common.Driver()
    reqs, exp = [], []
    for s in xs:
        es = enc(s)
        reqs.append(("escape", "1", es)); exp.append(("escape1", s, util.escape(s, True)))
        reqs.append(("escape", "0", es)); exp.append(("escape0", s, util.escape(s, False)))
        un = util.unescape(s)
        reqs.append(("quote_url", enc(un))); exp.append(("escape_url", s, util.escape_url(s)))
        reqs.append(("escape", "1", enc(un))); exp.append(("safe_entity", s, util.safe_entity(s)))
        reqs.append(("unikey", es)); exp.append(("unikey", s, util.unikey(s)))
        e1 = util.escape(s, True)
        reqs.append(("decode_basic", enc(e1))); exp.append(("decode_basic~html.unescape", e1, html.unescape(e1)))
    out = d.batch(reqs)
    bad = 0
    for (what, s, want), got in zip(exp, out):
        if dec(got) != want:
            bad += 1
            if bad <= 5:
                ctx.broken.append("correspondence: model %s(%r) = %r but implementation gives %r" % (what, s, dec(got), want))
    ctx.cov["traces_validated_against_impl"] = len(reqs)
    ctx.cov["disagreements_checked"] = len(reqs)
    ctx.cov["disagreements"] = bad
    return bad


def run(ctx):
    import mistune.util as util
    ctx.broken += common.proof_stage(ctx, THEOREMS)
    xs = inputs(ctx)
    # the property's own oracle runs first, on a module nobody has called yet (a result that depends on earlier calls
    # shows only if the unfavourable call comes first), then the model tie
    n = oracle(ctx, util, xs)
    correspondence(ctx, util, xs)
    if ctx.broken and not ctx.failures:
        # search mode: much larger budget on the implementation with the property's own oracle
        ctx.notes.append("search mode entered: " + "; ".join(ctx.broken)[:300])
        xs2 = inputs(ctx, big=True)
        n += oracle(ctx, util, xs2)
    distinct = len(set(xs))
    ctx.cov.update({
        "evaluations": n, "distinct_nontrivial": len(set(x for x in xs if any(c in x for c in '&<>"%') or any(ord(c) > 127 for c in x) or " " in x)),
        "rule": "all strings up to length %d over a 20-character special alphabet + seeded random Unicode / entity-laden strings; "
                "non-trivial = contains one of & < > \" %% , whitespace or a non-ASCII character" % (3 if ctx.quick() else 4),
        "samples": [repr(x) for x in xs[5000:5003] + xs[-3:]],
        "distinct_inputs": distinct,
        "explanation": "theorems for all strings (Lean); model tied to mistune.util by exact output comparison",
    })
    ctx.assumptions += [
        "Lean Char = Unicode scalar values; lone surrogates (on which escape_url raises UnicodeEncodeError) are outside the model",
        "unescape() (CPython html._replace_charref) is a parameter of the escape_url/safe_entity theorems; composition is checked against the real function",
        "html.unescape agrees with the model's four-entity decoder on the image of escape (checked on every input)",
    ]


def replay(ctx, path):
    import json, mistune.util as util
    r = json.load(open(path))["replay"]
    print("replaying", r)
    oracle(ctx, util, [r["s"]] + ([r["variant"]] if "variant" in r else []))
    for f in ctx.failures:
        print("FAILS:", f["what"])
    return 1 if ctx.failures else 0
