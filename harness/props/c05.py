"""C05 — the token tree obeys the documented grammar.

Decided by (Lean): `iterRender_shape` — for ANY block token tree and ANY inline parser whose tokens are inline
tokens, the second pass leaves no `text` field, turns every former `text` token into a `children` token and
never touches `raw`; plus the executable grammar `wfTokens` evaluated in the driver on the real results
(the Lean and the Python formulation of the grammar must agree).  That the block pass only emits grammar-conform
tokens is not a theorem yet: it is the oracle below over the configuration space (tested)."""
import json
import common, gen, configs, tokgrammar
from common import enc

LEVEL = "proof"
THEOREMS = ["Mistune.iterRender_shape",
            # tight lists: _transform_tight_list never fails on well-shaped tokens, leaves loose lists (and everything nested in them) untouched, and in a tight list
            # turns exactly the paragraphs that are direct children of items into block_text — nothing else changes; idempotent
            "Mistune.transform_eq_spec", "Mistune.transform_total", "Mistune.loose_id", "Mistune.tight_pointwise", "Mistune.tight_no_paragraph", "Mistune.tight_types",
            "Mistune.tight_counts", "Mistune.tightSpec_idem", "Mistune.transform_idem",
            # THE PROPERTY FOR THE CONCRETE MODEL (plugin-free configurations): every token tree Model.parseDoc returns satisfies the executable grammar wfTokens -- nesting bound,
            # heading levels (from a structural analysis of the regenerated ATX regexes), list attributes, url on links / images (needs the invariant that parse_ref_link stores
            # string urls), raw xor children, no left-over text, block vs inline contexts -- for EVERY source string; per-handler invariants by induction on both nesting budgets
            "Mistune.Model.Blk.G.parseMethod_grammar", "Mistune.Model.Blk.G.blockParse_pre", "Mistune.iterRender_wf", "Mistune.Model.Inl.G.inlineParse_wf",
            "Mistune.Model.parseDoc_wfTokens", "Mistune.Model.coreCfgs_ok", "Mistune.Model.coreCfgs_atx", "Mistune.Model.parseDoc_wf_core", "Mistune.Model.parseDoc_wfTokens_core",
            # table clause: every accepted row has as many cells as the header has alignments
            "Mistune.processRow_cells", "Mistune.tableRows_cells", "Mistune.nptableRows_cells"]


def cfgs_for(ctx, big=False):
    out = [configs.C("ast-core", renderer="ast"), configs.C("ast-all", renderer="ast", plugins=configs.PLUGINS),
           configs.C("ast-all-fenced", renderer="ast", plugins=configs.PLUGINS, directives="fenced"),
           configs.C("ast-all-rst", renderer="ast", plugins=configs.PLUGINS, directives="rst"),
           configs.C("ast-hardwrap", renderer="ast", hard_wrap=True, plugins=["table", "footnotes", "task_lists", "def_list"])]
    # the nesting limit configured both ways (attribute of the converter's block parser; constructor argument), several values
    for lim in ((2, 3) if not big else (1, 2, 3, 4, 8)):
        out.append(configs.C("ast-limit%d" % lim, renderer="ast", max_nested=lim))
        out.append(configs.C("ast-limit%d-plugins" % lim, renderer="ast", plugins=["spoiler", "def_list", "footnotes", "task_lists"], max_nested=lim))
        out.append(configs.C("ast-limit%d-ctor" % lim, renderer="ast", max_nested=lim, max_nested_how="ctor"))
        out.append(configs.C("ast-limit%d-fenced" % lim, renderer="ast", plugins=["def_list", "spoiler", "footnotes"], directives="fenced", max_nested=lim))
        out.append(configs.C("ast-limit%d-rst" % lim, renderer="ast", plugins=["def_list", "table"], directives="rst", max_nested=lim))
    for _ in range(3 if not big else 25):
        c = configs.random_cfg(ctx.rng, html_only=True)
        c["renderer"] = "ast"; c["name"] = "ast-rand"
        out.append(c)
    return out


def nest_docs(rng, k):
    """containers, then a directive, then a definition list, then containers again (every step may re-open the nesting count)"""
    out = []
    for _ in range(k):
        pre = "".join(rng.choice(["> ", "> ", "- ", "1. "]) for _ in range(rng.randint(0, 6)))
        cont = " " * len(pre) if any(c in pre for c in "-1") else pre
        # continuation prefix: quotes repeat their marker, list items are indented
        cont = "".join(("> " if m == ">" else " " * (len(m) + 1)) for m in pre.split())
        inner = "".join(rng.choice(["- ", "> ", "1. "]) for _ in range(rng.randint(1, 7))) + "deep"
        lines = ["```{note} T", "term", ":   " + inner, "```"] if rng.random() < 0.6 else ["```{note}", inner, "```"] if rng.random() < 0.5 else ["term", ":   " + inner]
        out.append("\n".join((pre if i == 0 else cont) + l for i, l in enumerate(lines)) + "\n")
    return out


EXTRA = ["| a | b | c |\n|:--|:-:|--:|\n| x \\| y | z |\n", "a | b | c\n:--|:-:|--:\nx \\| y | z\n", "| a | b |\n|---|---|\n| x \\| y \\| z |\n| p | q | r |\n| \\| |\n",
         "| a |\n|---|\n| `x \\| y` | z |\n", "Euler: $$e^{i\\pi}+1=0$$ and $x$\n", "# h $$y$$\n\n| $$z$$ |\n|---|\n", "*a $$b$$ c* [d $$e$$](/u)\n","| a | b |\n|---|:-:|\n| 1 | 2 |\n| 3 |\n", "a | b\n-- | --\n1 | 2 | 3\n", "term\n: def\n\n  more\n: d2\n", "- [ ] t\n- [x] u\n  - [ ] v\n",
         "[^1]: note\n\n    para2\n\nref[^1]\n", "```{note} T\n:class: c\n\nbody\n```\n", ".. figure:: a.png\n   :figwidth: 10\n\n   cap\n\n   legend\n",
         ">! spoiler\n>! more\n", "*[HTML]: Hyper\nThe HTML\n", "$$\nx\n$$\n", "Setext\n===\n", "1. a\n\n   b\n2. c\n", "9. nine\n10. ten\n", "```{toc}\n```\n# h\n",
         "> > > > > > > deep\n", "- - - - - - - deep\n", "> - > - > - > - x\n", ">! >! >! >! >! >! >! x\n", "> > > > > > -\n", "> > > > > > - item\n", "- - - - - - > q\n"]


def ladder_docs():
    """every depth 1..9 of quote / list / mixed containers, ending in a line that could open one more container: empty list items (a bare marker),
    markers followed by blanks only, one more quote mark, with and without content"""
    out = []
    tails = ["+", "*", "1.", "7)", "-", "+ ", "* x", "1. y", ">", "> z", "+\t", "- [ ] t", "10. ", "*\n", "+\n\n+", "1)\n2)"]
    for d in range(1, 10):
        for unit in (["> "], ["- "], ["> ", "- "], ["1. ", "> "], [">! "], [">"]):
            pre = "".join(unit[i % len(unit)] for i in range(d))
            for t in tails:
                out.append(pre + t + "\n")
    return out


def oracle(ctx, docs, cfgs):
    n = 0
    mds = [(c, configs.make(c)) for c in cfgs]
    for d in docs:
        pick = ctx.rng.sample(mds, 2)
        if "```{" in d or ".. " in d or "\n:   " in d:
            # documents with directive / definition-list syntax: also the limit configurations that know that syntax
            pick += ctx.rng.sample([x for x in mds if "limit" in x[0]["name"] and (x[0].get("directives") or "plugins" in x[0]["name"])] or mds, 2)
        for c, md in pick:
            try:
                toks = md(d)
            except RecursionError:
                continue
            except Exception:
                continue     # C01's business
            n += 1
            r = tokgrammar.wf(toks, md.block.max_nested_level)
            if r:
                ctx.fail("grammar:" + r[1].split(" ")[0] + ":" + r[0].rsplit(":", 1)[-1], "token tree violates the grammar at %s: %s (config %s, document %r)" % (r[0], r[1], c["name"], d),
                         {"config": c, "doc": d, "where": r[0], "why": r[1]})
    return n


def custom_renderer_stream(ctx, docs):
    """the token stream handed to a custom renderer obeys the same grammar"""
    import mistune
    from mistune.core import BaseRenderer
    seen = []

    class Rec(BaseRenderer):
        NAME = "rec"
        def __call__(self, tokens, state):
            seen.append(list(tokens))
            return ""
    md = mistune.create_markdown(renderer=Rec(), plugins=["table", "footnotes", "strikethrough", "task_lists", "def_list"])
    n = 0
    for d in docs:
        seen.clear()
        try:
            md(d)
        except Exception:
            continue
        for toks in seen:
            n += 1
            r = tokgrammar.wf(toks, 6)
            if r:
                ctx.fail("grammar-custom:" + r[1].split(" ")[0], "token stream to a custom renderer violates the grammar at %s: %s" % r, {"doc": d, "where": r[0], "why": r[1]})
    return n


def lean_grammar_agrees(ctx, docs, cfgs):
    """the Lean formulation of the grammar (`wfTokens`, evaluated by the driver) accepts the real results too"""
    import corr_model
    d = common.Driver()
    md = configs.make(cfgs[1])
    reqs, keep = [], []
    for doc in docs:
        try:
            toks = md(doc)
        except Exception:
            continue
        reqs.append(("wf", corr_model.canon(toks), "6")); keep.append((doc, toks))
    outs = d.batch(reqs)
    bad = 0
    for (doc, toks), got in zip(keep, outs):
        py = tokgrammar.wf(toks, 6)
        if (got == "ok") != (py is None):
            bad += 1
            if bad <= 3:
                ctx.broken.append("grammar formulations disagree on %r: Lean %s, Python %s" % (doc, got, py))
    ctx.cov["traces_validated_against_impl"] = len(reqs)
    ctx.cov["disagreements_checked"] = len(reqs)
    return len(reqs)


def shared_parser_part(ctx):
    """one BlockParser (with its nesting limit) handed to several converters: every one of them obeys the limit that was configured"""
    import mistune
    from mistune.block_parser import BlockParser
    from mistune.inline_parser import InlineParser
    from mistune.renderers.html import HTMLRenderer
    n = 0
    for lim in (2, 3, 4):
        bp = BlockParser(max_nested_level=lim)
        convs = [mistune.Markdown(renderer=HTMLRenderer(), block=bp, inline=InlineParser()), mistune.Markdown(renderer=None, block=bp, inline=InlineParser()),
                 mistune.Markdown(renderer=None, block=bp, inline=InlineParser(hard_wrap=True))]
        for md in convs[1:]:
            for d in EXTRA + nest_docs(ctx.rng, 40):
                try:
                    convs[0](d)
                    toks = md(d)
                except Exception:
                    continue
                n += 1
                r = tokgrammar.wf(toks, lim)
                if r:
                    ctx.fail("grammar:" + r[1].split(" ")[0] + ":shared-parser", "a converter that shares a BlockParser(max_nested_level=%d) with another converter violates the grammar at %s: %s (document %r)" % (lim, r[0], r[1], d),
                             {"config": {"name": "shared-parser", "max_nested": lim}, "doc": d, "where": r[0], "why": r[1]})
                    break
    return n


def include_nesting(ctx):
    """Files assembled with the include directive: a page whose include directive stands inside k nested containers, the included file holding
    m nested containers of its own (and a further include): the token tree of the whole page obeys the grammar and the nesting limit."""
    import mistune, tempfile, shutil, os
    from mistune.directives import FencedDirective, RSTDirective, Include
    n = 0
    tmp = tempfile.mkdtemp(prefix="verif-c05-")
    try:
        def w(name, text):
            with open(os.path.join(tmp, name), "w", encoding="utf-8") as f:
                f.write(text)
        def ladder(k, marks, last):
            return "".join(marks[i % len(marks)] for i in range(k)) + last
        for style in ("rst", "fenced"):
            D = RSTDirective if style == "rst" else FencedDirective
            inc = (lambda f: ".. include:: %s" % f) if style == "rst" else (lambda f: "```{include} %s\n```" % f)
            for limit in (3, 6):
                md = mistune.create_markdown(renderer=None, plugins=[D([Include()])])
                md.block.max_nested_level = limit
                for marks in (["- "], ["> "], ["- ", "> "], ["1. ", "- "]):
                    for k in (0, 1, limit - 2, limit - 1, limit):
                        for m in (1, limit - 1, limit, limit + 2):
                            w("inner.md", ladder(m, marks, "leaf\n"))
                            w("mid.md", ladder(max(m - 2, 0), marks, "x\n") + "\n" + inc("inner.md") + "\n")
                            pre = ladder(k, marks, "")
                            ind = " " * len(pre)
                            body = inc(ctx.rng.choice(["inner.md", "mid.md"])).split("\n")
                            w("page.md", "intro\n\n" + pre + body[0] + "\n" + "".join(ind + b + "\n" for b in body[1:]) + "\ntail\n")
                            try:
                                toks, _state = md.read(os.path.join(tmp, "page.md"))
                            except Exception:
                                continue       # C01's business
                            n += 1
                            r = tokgrammar.wf(toks, limit)
                            if r:
                                ctx.fail("grammar:" + r[1].split(" ")[0] + ":include", "token tree of a page assembled with the include directive (%s, limit %d, directive inside %d container(s) %r, included file nests %d) violates the grammar at %s: %s"
                                         % (style, limit, k, marks, m, r[0], r[1]), {"config": {"name": "include-" + style, "max_nested": limit}, "doc": open(os.path.join(tmp, "page.md")).read(), "inner": open(os.path.join(tmp, "inner.md")).read(), "where": r[0], "why": r[1]})
    finally:
        shutil.rmtree(tmp, ignore_errors=True)
    return n


def run(ctx):
    ctx.broken += common.proof_stage(ctx, THEOREMS)
    q = ctx.quick()
    docs = EXTRA + ladder_docs() + nest_docs(ctx.rng, 400 if q else 4000) + [gen.md_any(ctx.rng, 8) for _ in range(2500 if q else 30000)] + [gen.md_nested(ctx.rng) for _ in range(400 if q else 4000)]
    cfgs = cfgs_for(ctx)
    common.model_tie(ctx, docs, 'core', 'doc', limit=(1200 if ctx.quick() else 12000))
    common.model_tie(ctx, docs[::3], 'core-hardwrap', 'doc', limit=(400 if ctx.quick() else 4000))
    common.plugin_model_tie(ctx, 250 if ctx.quick() else 3000)
    n = oracle(ctx, docs, cfgs)
    n += custom_renderer_stream(ctx, docs[: (600 if q else 6000)])
    n += shared_parser_part(ctx)
    n += include_nesting(ctx)
    lean_grammar_agrees(ctx, docs[: (800 if q else 8000)], cfgs)
    if ctx.broken and not ctx.failures:
        ctx.notes.append("search mode entered")
        n += oracle(ctx, EXTRA + [gen.md_any(ctx.rng, 8) for _ in range(30000)], cfgs_for(ctx, big=True))
    ctx.cov.update({
        "evaluations": n, "distinct_nontrivial": len(set(docs)),
        "rule": "seeded documents (token-level Markdown, nested containers 3..9 deep, plugin/directive constructs, tables with short/long rows) parsed with renderer=None under core / all plugins / "
                "both directive syntaxes / hard_wrap / random plugin subsets, and through a recording custom renderer; every result checked against the grammar",
        "samples": docs[len(EXTRA):len(EXTRA) + 2],
    })
    ctx.assumptions += ["the grammar is the executable predicate of harness/tokgrammar.py (= Lean `wfTokens`); its reading of docs/advanced.rst is by review",
                        "conformance of the block pass itself is tested, not proved"]


def replay(ctx, path):
    r = json.load(open(path))["replay"]
    md = configs.make(r["config"])
    toks = md(r["doc"])
    print(json.dumps(toks)[:2000]); print(tokgrammar.wf(toks, 6))
    return 1 if tokgrammar.wf(toks, 6) else 0
