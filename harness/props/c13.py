"""C13 — reformatting with the Markdown renderer preserves the document.

Decided by: the constructive oracle over canonical documents with plain-word text (harness/docgen.py):
parse(render_md(parse(print d))) ≈ parse(print d), and reformatting twice changes nothing; plus the concrete Lean
parser model's correspondence on both the original and the reformatted text.  Tested against an executable Lean
reference model; no unbounded theorem yet."""
import json
import common, docgen

LEVEL = "other"
THEOREMS = ["Mistune.iterRender_shape"]


def strip_ref(tokens):
    """reference-style and inline links render differently but mean the same: compare url/title, not the form"""
    out = []
    for t in tokens:
        n = {k: v for k, v in t.items() if k not in ("ref", "label", "children")}
        if n.get("type") in ("link", "image") and "attrs" in n:
            a = dict(n["attrs"])
            if a.get("title") is None:
                a.pop("title", None)
            n["attrs"] = a
        if "children" in t:
            n["children"] = strip_ref(t["children"])
        out.append(n)
    return out


def oracle(ctx, n, maxdepth=3):
    import mistune
    from mistune.renderers.markdown import MarkdownRenderer
    ast = mistune.create_markdown(renderer=None)
    fmt = mistune.create_markdown(renderer=MarkdownRenderer())
    srcs, cnt = [], 0
    docgen.NO_ESC[0] = True        # the property's domain: text is plain words (no backslash escapes)
    for _ in range(n):
        lay = docgen.Layout(ctx.rng)
        doc = docgen.gen_blocks(ctx.rng, 0, maxdepth, plain=(ctx.rng.random() < 0.5))
        if ctx.rng.random() < 0.3:
            # the use may spell the label differently from the definition (case, runs of white space), and a later duplicate
            # definition may be spelled like the use: the first definition is the one that counts
            use = ctx.rng.choice(["foo", "foo", "Foo", "FOO", "foo  bar", "Foo Bar"])
            doc = doc + [("para", [("text", "see"), ("reflink", use)])]
        src = docgen.print_doc(doc, lay)
        if "reflink" in json.dumps(doc):
            d = "foo bar" if "bar" in use.lower() else "foo"
            src += "\n[%s]: /ref-url 'Ref Title'\n" % d
            if ctx.rng.random() < 0.3:
                src += "\n[%s]: /other-url 'Other'\n" % use
        if ctx.rng.random() < 0.2:
            # the file being reformatted may use CRLF line ends and lack the final one (C16: that changes nothing)
            src = src.rstrip("\n").replace("\n", "\r\n") + ctx.rng.choice(["", "\r\n"])
        srcs.append(src)
        cnt += 1
        try:
            t0 = docgen.normalise(ast(src))
            out1 = fmt(src)
            t1 = docgen.normalise(ast(out1))
            out2 = fmt(out1)
        except Exception as e:
            ctx.fail("exception", "reformatting raised %r" % e, {"doc": src}); continue
        if strip_ref(t1) != strip_ref(t0):
            import props.c04 as c04
            fd = c04.first_diff(strip_ref(t0), strip_ref(t1))
            ctx.fail("roundtrip:%s" % (fd[1] if fd[1] in ("type", "length") else fd[0].rsplit(":", 1)[-1] + "." + fd[1]),
                     "reformatted text parses to a different tree at %s: %r vs %r; document %r reformatted %r" % (fd[0], fd[2], fd[3], src, out1),
                     {"doc": src, "reformatted": out1})
            continue
        if out2 != out1:
            ctx.fail("not-idempotent", "reformatting a second time changes the text: %r -> %r" % (out1, out2), {"doc": src, "first": out1, "second": out2})
    docgen.NO_ESC[0] = False
    return cnt, srcs


def replay_known(ctx):
    import mistune
    from mistune.renderers.markdown import MarkdownRenderer
    ast = mistune.create_markdown(renderer=None)
    fmt = mistune.create_markdown(renderer=MarkdownRenderer())
    for k in ctx.known:
        ex = k.get("example") or {}
        if "doc" not in ex:
            continue
        out1 = fmt(ex["doc"])
        if strip_ref(docgen.normalise(ast(out1))) != strip_ref(docgen.normalise(ast(ex["doc"]))):
            ctx.fail(k["signature"], "stored example of a known finding: %r is reformatted to %r, which parses differently" % (ex["doc"], out1), {"doc": ex["doc"], "reformatted": out1})
        else:
            ctx.notes.append("a stored known-finding example no longer fails: %r" % ex["doc"])


def run(ctx):
    ctx.broken += common.proof_stage(ctx, THEOREMS)
    replay_known(ctx)
    n, srcs = oracle(ctx, 2000 if ctx.quick() else 30000, 3 if ctx.quick() else 4)
    common.model_tie(ctx, srcs, "core", "doc", limit=(600 if ctx.quick() else 6000))
    if ctx.broken and not ctx.failures:
        ctx.notes.append("search mode entered")
        n2, _ = oracle(ctx, 20000, 4)
        n += n2
    ctx.cov.update({
        "evaluations": n, "distinct_nontrivial": len(set(srcs)),
        "explanation": "constructive round trip through the real Markdown renderer and parser on canonical documents, and idempotence of reformatting; tested, not proved",
        "rule": "random canonical Doc trees (see C04), half of them with punctuation-free text, some with reference links; parse -> MarkdownRenderer -> parse must give the same tree (modulo blank lines, style/marker, "
                "reference vs inline link form) and a second reformatting must be the identity",
        "samples": srcs[:2],
    })
    ctx.assumptions += ["canonical sub-language as generated by harness/docgen.py", "no unbounded theorem: the level is 'tested'"]


def replay(ctx, path):
    r = json.load(open(path))["replay"]
    print(json.dumps(r, indent=1)[:3000])
    return 1
