"""C13 — reformatting with the Markdown renderer preserves the document.

Decided by: the constructive oracle over canonical documents with plain-word text (harness/docgen.py):
parse(render_md(parse(print d))) ≈ parse(print d), and reformatting twice changes nothing; plus the concrete Lean
parser model's correspondence on both the original and the reformatted text.  Tested against an executable Lean
reference model; no unbounded theorem yet."""
import json
from common import enc, dec
import common, docgen

LEVEL = "other"
THEOREMS = ["Mistune.iterRender_shape",
            # code blocks: whatever the code is, the fence the Markdown renderer writes cannot be closed by a line of the code, and parsing what it wrote gives the code back
            "Mistune.marker_shape", "Mistune.marker_not_closable", "Mistune.closesFence_eq", "Mistune.written_eq_recorded", "Mistune.written_fence_ok",
            "Mistune.fence_roundtrip", "Mistune.md_block_code_roundtrip", "Mistune.md_block_code_roundtrip_any",
            # headings and thematic breaks: the rule regexes evaluated exactly, composed with the handlers, and the round trip through MarkdownRenderer.heading / thematic_break
            "Mistune.atxRule_lookup", "Mistune.thematicRule_lookup", "Mistune.atxRule_matchAt_hit", "Mistune.atxRule_matchAt_iff", "Mistune.atx_line_token",
            "Mistune.thematicRule_matchAt_hit", "Mistune.thematicRule_matchAt_iff", "Mistune.atxSpec_blank_fixed_iff", "Mistune.md_heading_roundtrip", "Mistune.md_thematic_break_roundtrip",
            # one iteration of BlockParser.parse on a written heading / thematic break, and whole documents made of them
            "Mistune.md_heading_step", "Mistune.md_thematic_break_step", "Mistune.blank_line_step", "Mistune.leafDoc_blockParse",
            # block quotes: what MarkdownRenderer.block_quote writes (exactly), the rule block_quote fires on it, extract_block_quote / parse_block_quote give back exactly the
            # rendered children (minus the trailing empty quote lines the renderer drops), one iteration of BlockParser.parse consumes exactly what was written
            "Mistune.indentAll_lines", "Mistune.md_block_quote_lines", "Mistune.md_block_quote_lines_last", "Mistune.blockQuoteRule_matchAt_hit", "Mistune.quoteBreakSc_ok",
            "Mistune.quoteRules_ok", "Mistune.md_block_quote_extract", "Mistune.md_block_quote_roundtrip", "Mistune.md_block_quote_step",
            # ... and nesting: require_marker decided by the first character, the quote that ends its subject, the child parse of a quote whose only child is a quote, two levels
            "Mistune.reqMarker_false_of_first", "Mistune.quoteReqSc_gt_ok", "Mistune.md_block_quote_extract_eos", "Mistune.md_block_quote_step_eos", "Mistune.md_quote_only_parse",
            "Mistune.md_block_quote_nested",
            # the plugin spoiler rebinds the handler of block_quote: under NotSpoiler (plugin absent, nested quote, or text not matched by _BLOCK_SPOILER_MATCH) the dispatch computes parse_block_quote
            "Mistune.parseBlockSpoiler_eq_quote", "Mistune.parseMethod_quote", "Mistune.notSpoiler_of_first", "Mistune.spoilerMatch_gt_ok", "Mistune.notSpoiler_gt",
            "Mistune.spoilerActive_cfgs"]


def strip_ref(tokens):
    """reference-style and inline links render differently but mean the same: compare url/title, not the form"""
    out = []
    for t in tokens:
        n = {k: v for k, v in t.items() if k not in ("ref", "label", "children")}
        if n.get("type") in ("link", "image") and "attrs" in n:
            a = dict(n["attrs"])
            if a.get("title") is None:
                a.pop("title", None)
            n["attrs"] = a
        if "children" in t:
            n["children"] = strip_ref(t["children"])
        out.append(n)
    return out


EDGE_SRCS = [" ~~~\n    ~~~\n ~~~\n", "  ```py\n     ```\n  ```\n", "para\n\n     ```\n    x\n\nafter\n", "    `\n    ~~~\n", "para\n\n    a\n     ~~~\n    b\n", "    ```\n    ~~~\n    ````\n",
             "   ~~~~\n       ~~~~~\n   ~~~~\n\ntext\n", "    foo\n\n ```\n x\n ```\n", "    code\n\n   # heading\n", "- a\n\n      ```\n      x\n", "> ```\n>     ```\n> ```\n"]


def oracle(ctx, n, maxdepth=3):
    import mistune
    from mistune.renderers.markdown import MarkdownRenderer
    ast = mistune.create_markdown(renderer=None)
    fmt = mistune.create_markdown(renderer=MarkdownRenderer())
    srcs, cnt = [], 0
    docgen.NO_ESC[0] = True        # the property's domain: text is plain words (no backslash escapes)
    for _ in range(n):
        lay = docgen.Layout(ctx.rng)
        doc = docgen.gen_blocks(ctx.rng, 0, maxdepth, plain=(ctx.rng.random() < 0.5))
        if ctx.rng.random() < 0.3:
            # the use may spell the label differently from the definition (case, runs of white space), and a later duplicate
            # definition may be spelled like the use: the first definition is the one that counts
            use = ctx.rng.choice(["foo", "foo", "Foo", "FOO", "foo  bar", "Foo Bar"])
            doc = doc + [("para", [("text", "see"), ("reflink", use)])]
        src = docgen.print_doc(doc, lay)
        if "reflink" in json.dumps(doc):
            d = "foo bar" if "bar" in use.lower() else "foo"
            src += "\n[%s]: /ref-url 'Ref Title'\n" % d
            if ctx.rng.random() < 0.3:
                src += "\n[%s]: /other-url 'Other'\n" % use
        if ctx.rng.random() < 0.2:
            # the file being reformatted may use CRLF line ends and lack the final one (C16: that changes nothing)
            src = src.rstrip("\n").replace("\n", "\r\n") + ctx.rng.choice(["", "\r\n"])
        srcs.append(src)
    # code blocks whose content looks like fences (indented runs, runs of both kinds, lines that become closing fences when an indented fence is de-indented)
    srcs += EDGE_SRCS
    for src in srcs:
        cnt += 1
        try:
            t0 = docgen.normalise(ast(src))
            out1 = fmt(src)
            t1 = docgen.normalise(ast(out1))
            out2 = fmt(out1)
        except Exception as e:
            ctx.fail("exception", "reformatting raised %r" % e, {"doc": src}); continue
        if strip_ref(t1) != strip_ref(t0):
            import props.c04 as c04
            fd = c04.first_diff(strip_ref(t0), strip_ref(t1))
            ctx.fail("roundtrip:%s" % (fd[1] if fd[1] in ("type", "length") else fd[0].rsplit(":", 1)[-1] + "." + fd[1]),
                     "reformatted text parses to a different tree at %s: %r vs %r; document %r reformatted %r" % (fd[0], fd[2], fd[3], src, out1),
                     {"doc": src, "reformatted": out1})
            continue
        if out2 != out1:
            ctx.fail("not-idempotent", "reformatting a second time changes the text: %r -> %r" % (out1, out2), {"doc": src, "first": out1, "second": out2})
    docgen.NO_ESC[0] = False
    return cnt, srcs


def code_tie(ctx, n):
    """MarkdownRenderer.block_code / _get_fenced_marker / _closes_fence against their Lean transcriptions (Mistune/MdCode.lean) on code texts made of fence characters,
    blanks, tabs, line ends and words, with and without a recorded marker; and the statement of the theorem itself evaluated on the implementation: what block_code
    writes parses back to exactly the code"""
    import mistune
    from mistune.renderers import markdown as mdr
    from mistune.core import BlockState
    r = mdr.MarkdownRenderer()
    ast = mistune.create_markdown(renderer=None)
    d = common.Driver()
    reqs, exp = [], []
    cases = []
    for i in range(n):
        code = "".join(ctx.rng.choice(["`", "``", "```", "~", "~~~", "~~~~", " ", "  ", "   ", "    ", "\t", "\n", "\n\n", "x", "a b", "`~`", "\r"]) for _ in range(ctx.rng.randint(0, 9)))
        marker = ctx.rng.choice(["", "", "```", "~~~", "````", "~~~~~", "`````"])
        info = ctx.rng.choice(["", "py", "c lang", "{.x}"])
        cases.append((marker, info, code))
    for marker, info, code in cases:
        tok = {"type": "block_code", "raw": code}
        if marker:
            tok["marker"] = marker
        if info:
            tok["attrs"] = {"info": info}
        out = r.block_code(tok, BlockState())
        reqs.append(("md_block_code", enc(marker), enc(info), enc(code))); exp.append(("block_code", (marker, info, code), out))
        reqs.append(("md_marker", enc(code))); exp.append(("marker", code, mdr._get_fenced_marker(code)))
        if marker:
            reqs.append(("md_closes", enc(marker), enc(code))); exp.append(("closes", (marker, code), "1" if mdr._closes_fence(marker, code) else "0"))
        # the property on the implementation: parse(block_code(code)) gives the code back (with the final line end the renderer adds)
        if "\r" not in code and not (info and marker.startswith("`") and "`" in info):
            toks = [t for t in ast(out) if t["type"] == "block_code"]
            want = code if (not code or code.endswith("\n")) else code + "\n"
            if len(toks) != 1 or toks[0]["raw"] != want:
                ctx.fail("code-roundtrip", "MarkdownRenderer.block_code(%r, marker=%r) wrote %r, which parses to %r" % (code, marker, out, [t["raw"] for t in toks]), {"doc": out, "code": code, "marker": marker})
    outs = d.batch(reqs)
    bad = 0
    for (kind, arg, want), got in zip(exp, outs):
        g = got if kind == "closes" else dec(got)
        if g != want:
            bad += 1
            if bad <= 3:
                ctx.broken.append("markdown-renderer code model (%s): on %r the implementation gives %r, the Lean transcription %r" % (kind, arg, want, g))
    ctx.cov["md_code_cases_compared"] = len(reqs)
    ctx.cov["md_code_disagreements"] = bad
    return len(reqs)


def heading_tie(ctx, n):
    """MarkdownRenderer.heading / thematic_break against their Lean transcriptions (Mistune/MdBlocks.lean: mdHeading, mdThematicBreak) on generated (level, text) pairs; and the
    statement of md_heading_roundtrip evaluated on the implementation: for a text within its hypotheses (one line, non-empty, text.strip() == text, no closing sequence the
    handler would remove) what heading() writes parses back to a heading of that level whose text is exactly the text"""
    import re
    import mistune
    from mistune.renderers import markdown as mdr
    from mistune.core import BlockState
    r = mdr.MarkdownRenderer()
    block = mistune.BlockParser()
    d = common.Driver()
    reqs, exp = [], []
    indom = lost = 0
    pieces = ["foo", "bar", "a b", "#", "##", " ", "  ", "\t", "\\", "*", "x#", "C#", "\u00a0", "\u3000", "é", "`", "-", "=", ">", "1."]
    for i in range(n):
        level = ctx.rng.randint(1, 8)
        text = "".join(ctx.rng.choice(pieces) for _ in range(ctx.rng.randint(0, 5)))
        tok = {"type": "heading", "attrs": {"level": level}, "children": [{"type": "text", "raw": text}]}
        out = r.heading(tok, BlockState())
        reqs.append(("md_heading", str(level), enc(text))); exp.append(((level, text), out))
        # the theorem's hypotheses, and its conclusion on the implementation
        b = text.rstrip("#")
        ok = (b != "" and not (len(b) < len(text) and len(b.rstrip()) < len(b)))
        if 1 <= level <= 6 and text and text.strip() == text and "\n" not in text:
            st = BlockState(); st.process(out + "next\n")
            block.parse(st)
            first = st.tokens[0] if st.tokens else None
            good = (first is not None and first["type"] == "heading" and first["attrs"]["level"] == level and first.get("text") == text)
            indom += ok
            lost += (not ok)
            if ok and not good:
                ctx.fail("heading-roundtrip", "MarkdownRenderer.heading(level=%d, text=%r) wrote %r, which parses to %r" % (level, text, out, first), {"doc": out, "level": level, "text": text})
            if not ok and good:
                ctx.broken.append("headingTextOk is not necessary on %r" % text)
    # leafDoc_blockParse on the implementation: a document of in-domain headings and thematic breaks as the renderer writes them parses to exactly their tokens,
    # each followed by one blank_line token
    docs = 0
    for i in range(max(20, n // 20)):
        blocks, src, want = [], "", []
        for _ in range(ctx.rng.randint(0, 6)):
            if ctx.rng.random() < 0.3:
                src += r.thematic_break({"type": "thematic_break"}, BlockState()); want += [{"type": "thematic_break"}, {"type": "blank_line"}]
            else:
                level = ctx.rng.randint(1, 6)
                text = "".join(ctx.rng.choice(pieces) for _ in range(ctx.rng.randint(1, 5)))
                b = text.rstrip("#")
                if not (text and text.strip() == text and b != "" and not (len(b) < len(text) and len(b.rstrip()) < len(b))):
                    continue
                src += r.heading({"type": "heading", "attrs": {"level": level}, "children": [{"type": "text", "raw": text}]}, BlockState())
                want += [{"type": "heading", "text": text, "attrs": {"level": level}, "style": "atx"}, {"type": "blank_line"}]
        st = BlockState(); st.process(src)
        block.parse(st)
        docs += 1
        if st.tokens != want:
            ctx.fail("leafdoc", "the document %r of rendered headings / thematic breaks parses to %r, expected %r" % (src, st.tokens, want), {"doc": src})
    ctx.cov["md_leaf_documents_checked"] = docs
    reqs.append(("md_thematic_break",)); exp.append(("thematic_break", r.thematic_break({"type": "thematic_break"}, BlockState())))
    outs = d.batch(reqs)
    bad = 0
    for (arg, want), got in zip(exp, outs):
        if dec(got) != want:
            bad += 1
            if bad <= 3:
                ctx.broken.append("markdown-renderer heading model: on %r the implementation gives %r, the Lean transcription %r" % (arg, want, dec(got)))
    ctx.cov["md_heading_cases_compared"] = len(reqs)
    ctx.cov["md_heading_disagreements"] = bad
    ctx.cov["md_heading_roundtrip_checked"] = indom
    ctx.cov["md_heading_closing_sequence_lost"] = lost
    return len(reqs)


def quote_tie(ctx, n):
    """MarkdownRenderer.block_quote / textwrap.indent(text, prefix, always-true) against their Lean transcriptions (Mistune/MdBlocks.lean: mdBlockQuote, indentAll) on generated
    children texts (the real method is called on a token whose only child is a text token rendering to the given text); and the statements of md_block_quote_lines /
    md_block_quote_roundtrip evaluated on the implementation: for content lines within the hypotheses the method writes exactly "> " + line for every line followed by one blank
    line, and BlockParser.extract_block_quote on that output (followed by a paragraph) returns exactly the content lines and the end of the renderer's blank line"""
    import re
    import textwrap
    import mistune
    from mistune.renderers import markdown as mdr
    from mistune.core import BlockState
    r = mdr.MarkdownRenderer()
    block = mistune.BlockParser()
    rule = re.compile(block.SPECIFICATION["block_quote"], re.M)
    sc0 = block.compile_sc(["blank_line", "indent_code", "fenced_code"])
    d = common.Driver()
    reqs, exp = [], []
    pieces = ["foo", "bar", "a b", ">", "> ", " ", "  ", "    ", "\t", "\n", "\n\n", "\n", "#", "-", "* x", "```", "1.", "\r", "\r\n", "\x0b", "\x0c", "\x1c", "\x85", "\u2028", "\u2029", "é", "<div>"]
    for i in range(n):
        inner = "".join(ctx.rng.choice(pieces) for _ in range(ctx.rng.randint(0, 8)))
        tok = {"type": "block_quote", "children": [{"type": "text", "raw": inner}]}
        reqs.append(("md_block_quote", enc(inner))); exp.append((("block_quote", inner), r.block_quote(tok, BlockState())))
        if i % 4 == 0:
            pre = ctx.rng.choice(["> ", ">", "  ", ""])
            reqs.append(("md_indent_all", enc(pre), enc(inner))); exp.append((("indent", pre, inner), textwrap.indent(inner, pre, lambda _: True)))
    # the theorems on the implementation
    safe = ["foo", "bar", "a b", ">", " ", "  ", "#", "-", "* x", "1.", "é", "x\ty", "`", "<b>"]
    breaks = "\n\r\x0b\x0c\x1c\x1d\x1e\x85\u2028\u2029"
    indom = 0
    for i in range(max(50, n // 4)):
        ls = ["".join(ctx.rng.choice(safe) for _ in range(ctx.rng.randint(0, 4))) for _ in range(ctx.rng.randint(1, 4))]
        bs = ["".join(ctx.rng.choice([">", " "]) for _ in range(ctx.rng.randint(0, 3))) for _ in range(ctx.rng.randint(0, 2))]
        ok = (all(not re.match(r" {0,3}\t", " " + l) and not any(c in breaks for c in l) for l in ls)   # no exotic line separator, no tab in the indentation
              and ls[-1].strip("> ") != ""                                                             # the last content line is not made of '>' and blanks only
              and ls[-1].strip() != ""                                                                 # ... nor blank
              and sc0.match(ls[0] + "\n") is None)                                                     # the first line is not blank / indented code / a fence
        if not ok:
            continue
        indom += 1
        inner = "".join(l + "\n" for l in ls + bs)
        out = r.block_quote({"type": "block_quote", "children": [{"type": "text", "raw": inner}]}, BlockState())
        want = "".join("> " + l + "\n" for l in ls) + "\n"
        if out != want:
            ctx.fail("quote-lines", "MarkdownRenderer.block_quote on the children text %r wrote %r, expected %r" % (inner, out, want), {"inner": inner})
            continue
        src = out + "next\n"
        st = BlockState(); st.process(src)
        m = rule.match(src, 0)
        text, end_pos = (None, None) if m is None else block.extract_block_quote(m, st)
        if text != "".join(l + "\n" for l in ls) or end_pos != len(out):
            ctx.fail("quote-roundtrip", "MarkdownRenderer.block_quote(%r) wrote %r; extract_block_quote on it gives %r, end %r" % (inner, out, text, end_pos), {"doc": src, "inner": inner})
    outs = d.batch(reqs)
    bad = 0
    for (arg, want), got in zip(exp, outs):
        if dec(got) != want:
            bad += 1
            if bad <= 3:
                ctx.broken.append("markdown-renderer block_quote model: on %r the implementation gives %r, the Lean transcription %r" % (arg, want, dec(got)))
    ctx.cov["md_quote_cases_compared"] = len(reqs)
    ctx.cov["md_quote_disagreements"] = bad
    ctx.cov["md_quote_roundtrip_checked"] = indom
    return len(reqs)


def replay_known(ctx):
    import mistune
    from mistune.renderers.markdown import MarkdownRenderer
    ast = mistune.create_markdown(renderer=None)
    fmt = mistune.create_markdown(renderer=MarkdownRenderer())
    for k in ctx.known:
        ex = k.get("example") or {}
        if "doc" not in ex:
            continue
        out1 = fmt(ex["doc"])
        if strip_ref(docgen.normalise(ast(out1))) != strip_ref(docgen.normalise(ast(ex["doc"]))):
            ctx.fail(k["signature"], "stored example of a known finding: %r is reformatted to %r, which parses differently" % (ex["doc"], out1), {"doc": ex["doc"], "reformatted": out1})
        else:
            ctx.notes.append("a stored known-finding example no longer fails: %r" % ex["doc"])


def run(ctx):
    ctx.broken += common.proof_stage(ctx, THEOREMS)
    replay_known(ctx)
    n, srcs = oracle(ctx, 2000 if ctx.quick() else 30000, 3 if ctx.quick() else 4)
    common.model_tie(ctx, srcs, "core", "doc", limit=(600 if ctx.quick() else 6000))
    n += code_tie(ctx, 1500 if ctx.quick() else 20000)
    n += heading_tie(ctx, 1500 if ctx.quick() else 20000)
    n += quote_tie(ctx, 1500 if ctx.quick() else 20000)
    if ctx.broken and not ctx.failures:
        ctx.notes.append("search mode entered")
        n2, _ = oracle(ctx, 20000, 4)
        n += n2
    ctx.cov.update({
        "evaluations": n, "distinct_nontrivial": len(set(srcs)),
        "explanation": "constructive round trip through the real Markdown renderer and parser on canonical documents, and idempotence of reformatting; tested, not proved",
        "rule": "random canonical Doc trees (see C04), half of them with punctuation-free text, some with reference links; parse -> MarkdownRenderer -> parse must give the same tree (modulo blank lines, style/marker, "
                "reference vs inline link form) and a second reformatting must be the identity",
        "samples": srcs[:2],
    })
    ctx.assumptions += ["canonical sub-language as generated by harness/docgen.py", "unbounded theorem only for code blocks (md_block_code_roundtrip_any over the transcribed block_code / fence choice, tied by differential comparison); the property as a whole is 'tested'"]


def replay(ctx, path):
    r = json.load(open(path))["replay"]
    print(json.dumps(r, indent=1)[:3000])
    return 1
