"""Runs a sequence of mistune.markdown() calls in ONE fresh interpreter. stdin: JSON {"src": path, "calls": [[doc, kwargs], …]};
stdout: JSON list of results (string / token list / ["EXC", name])."""
import sys, json


def main():
    job = json.load(sys.stdin)
    sys.path.insert(0, job["src"])
    import mistune
    out = []
    for doc, kw in job["calls"]:
        try:
            out.append(mistune.markdown(doc, **kw))
        except Exception as e:
            out.append(["EXC", type(e).__name__])
    json.dump(out, sys.stdout, default=str)


if __name__ == "__main__":
    main()
