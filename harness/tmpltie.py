"""The tie of the render-template model (Lean: Mistune.Tmpl / TmplTree / Generated.Templates) to the implementation:
 1. probing: every extracted template, evaluated by the model, against the real render method (tmplprobe);
 2. tree tie: the token list the HTML renderer actually receives, rendered by the model with the regenerated template
    table, must erase to the very HTML string the implementation returns; the decidable hypothesis of the safety
    theorem (`refinedOk`: restricted fields are safe, no exempt type) is evaluated on those real trees."""
import copy, json
import common, configs, tmplprobe
from corr_model import canon
from common import dec


class Capture:
    """stands in for md.renderer during one conversion: records the token list, then delegates"""
    def __init__(self, real):
        self.__dict__["real"] = real
        self.__dict__["toks"] = None      # all token lists rendered during the conversion, concatenated (the footnotes
                                          # plugin renders its section in a second call and appends the result)

    def __getattr__(self, k):
        return getattr(self.real, k)

    def __call__(self, tokens, state):
        toks = list(tokens)
        self.__dict__["toks"] = (self.toks or []) + copy.deepcopy(toks)
        return self.real(toks, state)


def plain(x):
    if isinstance(x, dict):
        return {str(k): plain(v) for k, v in x.items()}
    if isinstance(x, (list, tuple)):
        return [plain(v) for v in x]
    if isinstance(x, (str, int, bool)) or x is None:
        return x
    return str(x)


def has_type(toks, names):
    for t in toks:
        if t.get("type") in names:
            return True
        if "children" in t and has_type(t["children"], names):
            return True
    return False


def walk_all(toks):
    for t in toks:
        if isinstance(t, dict):
            yield t
            ch = t.get("children")
            if isinstance(ch, list):
                yield from walk_all(ch)


def tree_tie(ctx, docs, cfgs, exempt=("block_error",)):
    d = common.Driver()
    reqs, meta = [], []
    for c in cfgs:
        md = configs.make(c)
        real = md.renderer
        for doc in docs:
            cap = Capture(real)
            md.renderer = cap
            try:
                html = md(doc)
            except RecursionError:
                continue
            except Exception:
                continue
            finally:
                md.renderer = real
            if cap.toks is None:
                continue
            toks = plain(cap.toks)
            reqs.append(("tmpl_render", canon(toks), "1" if c.get("escape", True) else "0"))
            meta.append((c, doc, html, toks))
    outs = d.batch(reqs)
    n = 0
    stats = {"trees": 0, "refined": 0, "with_toc": 0, "exempt": 0, "tag_hypotheses_hold": 0, "well_tagged": 0, "striptags_agrees_with_scanner": 0, "balance_hypotheses_hold": 0, "balanced": 0}
    from mistune.util import striptags
    for (c, doc, html, toks), got in zip(meta, outs):
        n += 1
        stats["trees"] += 1
        if not got.startswith("ok "):
            ctx.broken.append("template tree tie: the model could not read the token list of %r under %s (%s)" % (doc[:80], c["name"], got[:60]))
            continue
        flags, _, body = got[3:].partition(" ")
        body, _, stripped = body.partition(" ")
        g = dec(body)
        esc = c.get("escape", True)
        ex = has_type(toks, set(exempt))
        if has_type(toks, {"toc"}):
            stats["with_toc"] += 1       # list skeleton of render_toc_ul is modelled in Mistune.Toc (C15)
        elif g != html:
            if sum(1 for b in ctx.broken if b.startswith("template tree tie")) < 4:
                ctx.broken.append("template tree tie: model renders %r, implementation %r for %r under %s" % (g[:160], html[:160], doc[:120], c["name"]))
            continue
        # hypothesis of `rendered_url_not_script` (C02Url): every destination that reaches safe_url is made of the characters 33..126
        # (the parser passed it through escape_url) — then safe_url's prefix test and a browser's reading of the scheme coincide
        bad_url = [(t.get("type"), k, v) for t in walk_all(toks) for k, v in (t.get("attrs") or {}).items()
                   if k in ("url", "src", "target") and isinstance(v, str) and any(not (33 <= ord(ch) < 127) for ch in v)]
        stats["url_fields_checked"] = stats.get("url_fields_checked", 0) + sum(1 for t in walk_all(toks) for k, v in (t.get("attrs") or {}).items() if k in ("url", "src", "target") and isinstance(v, str))
        if bad_url and sum(1 for b in ctx.broken if b.startswith("url-alphabet")) < 3:
            ctx.broken.append("url-alphabet: a destination outside the characters 33..126 reaches the renderer (hypothesis of rendered_url_not_script fails): %r for %r under %s" % (bad_url[0], doc[:120], c["name"]))
        if ex:
            stats["exempt"] += 1
            continue
        if esc and flags[3] == "W" and not has_type(toks, {"toc"}):
            # the tested hypothesis `StripAgrees` of render_tagged: on a well-tagged string the regenerated regex (model side) and
            # the real striptags() remove exactly what the scanner calls tags
            stats["well_tagged"] += 1
            if flags[4] != "A" or striptags(html) != dec(stripped):
                if sum(1 for b in ctx.broken if b.startswith("StripAgrees")) < 3:
                    ctx.broken.append("StripAgrees (hypothesis of render_tagged) fails: striptags(%r) = %r, the tag scanner keeps %r" % (html[:200], striptags(html)[:120], dec(stripped)[:120]))
            else:
                stats["striptags_agrees_with_scanner"] += 1
        if esc and len(flags) >= 7:
            if flags[6] == "N":
                stats["balanced"] += 1
            if flags[0] == "R" and flags[5] == "B":
                stats["balance_hypotheses_hold"] += 1
                if flags[6] != "N":
                    ctx.broken.append("balance theorem contradicted?! refinedOk and balTreeOk hold but the model output is not balanced for %r" % doc[:120])
        if esc and flags[0] == "R" and flags[2] == "T":
            stats["tag_hypotheses_hold"] += 1
            if flags[3] != "W":
                ctx.broken.append("tag theorem contradicted?! refinedOk and tagTreeOk hold but the model output is not well tagged for %r" % doc[:120])
        if esc:
            if flags[0] == "R":
                stats["refined"] += 1
                if flags[1] != "S":
                    ctx.broken.append("template theorem contradicted?! refinedOk holds but the model output is not safe for %r" % doc[:120])
            else:
                if sum(1 for b in ctx.broken if b.startswith("refinement")) < 4:
                    ctx.broken.append("refinement: a restricted field of a real token tree holds a markup delimiter (hypothesis `refinedOk` of render_safe fails) for %r under %s" % (doc[:160], c["name"]))
    ctx.cov.setdefault("template_tie", {}).update(stats)
    return n


def stage(ctx, docs, cfgs, n_per=None):
    n_per = n_per or (12 if ctx.quick() else 60)
    total, broken, _ = tmplprobe.run(ctx, n_per)
    ctx.broken += broken
    ctx.cov.setdefault("template_tie", {})["probes"] = total
    n = tree_tie(ctx, docs, cfgs)
    return total + n
