"""Input generators (all randomness from the Ctx RNG)."""
import itertools

SPECIAL20 = ['&', '<', '>', '"', "'", '%', ';', '#', ' ', 'a', 'Z', '1', '\t', '\n', 'é', 'ß', '/', '\\', ' ', 'g']

UNI_RANGES = [(0x20, 0x7e)] * 6 + [(0x00, 0x1f), (0x7f, 0xff), (0x100, 0x24f), (0x370, 0x3ff), (0x400, 0x4ff),
              (0x1e00, 0x1eff), (0x2000, 0x206f), (0x3000, 0x303f), (0xfb00, 0xfb06), (0x10400, 0x1044f),
              (0x1f600, 0x1f64f), (0x1c4, 0x1cc), (0x1f0, 0x1f3), (0x130, 0x131), (0x3a3, 0x3c3), (0x1c80, 0x1c88),
              (0x2160, 0x217f), (0x24b6, 0x24e9), (0xff21, 0xff5a), (0x13a0, 0x13ff), (0xab70, 0xabbf)]


def exhaustive(alphabet, maxlen):
    for n in range(maxlen + 1):
        for t in itertools.product(alphabet, repeat=n):
            yield "".join(t)


def rand_char(rng):
    lo, hi = rng.choice(UNI_RANGES)
    while True:
        c = rng.randint(lo, hi)
        if not (0xD800 <= c <= 0xDFFF):
            return chr(c)


def rand_unicode(rng, maxlen=24):
    n = rng.randint(0, maxlen)
    return "".join(rand_char(rng) for _ in range(n))


ENTITY_BITS = ["&amp;", "&lt;", "&gt;", "&quot;", "&#60;", "&#x3C;", "&copy;", "&notit;", "&AElig", "&#0;", "&#xD800;",
               "&#1114112;", "%20", "%3c", "%", "%zz", "&", ";", "&;", "&#;", "&#x;", "&nbsp;", "&Tab;", "&NewLine;"]


def rand_mixed(rng, maxparts=8):
    parts = []
    for _ in range(rng.randint(0, maxparts)):
        r = rng.random()
        if r < 0.35:
            parts.append(rng.choice(ENTITY_BITS))
        elif r < 0.6:
            parts.append(rng.choice(SPECIAL20))
        else:
            parts.append(rand_unicode(rng, 4))
    return "".join(parts)


# ------------------------------------------------------------------------------------------------
# G_md: token-level Markdown

WORDS = ["alpha", "beta", "gamma", "delta", "foo", "bar", "baz", "qux", "Lorem", "ipsum", "x", "y", "Z", "hello",
         "world", "HTML", "note", "one", "two", "three"]

INLINE_TOKS = ["*", "**", "***", "_", "__", "`", "``", "[", "]", "(", ")", "![", "](", "<", ">", "\\", "\\*", "\\[",
               "&amp;", "&lt;", "&#35;", "&", "~~", "~", "^", "==", "$", "$$", "!", ">!", "!<", "^^", "[^1]", "[^a]",
               "<a>", "</a>", "<b>", "</b>", "<!--", "-->", "<?", "?>", "<http://x.y/z>", "<a@b.c>", "http://a.b/c",
               "https://e.f", "  ", "\t", " ", " ", " ", " ", "'", '"', ":", "|", "-", "=", "+", "#", "{", "}", "..",
               "javascript:", " ", "　", "é", "ß", " ", "[x]", "[ ]", "(u)", "(<u v>)", '(u "t")',
               "[foo]", "[FOO]", "[bar]", "*[HTML]: ", "\x0b", "\x0c", "\x1c"]

LINE_STARTS = ["", "", "", "# ", "## ", "###### ", "####### ", "> ", ">", "- ", "* ", "+ ", "1. ", "2) ", "10. ", "    ", "\t",
               "  ", "   ", "```", "~~~", "````", "```py", "---", "***", "===", "___", "[foo]: ", "[bar]: <u> 't'", "[^1]: ",
               "[^a]: ", "<div>", "</div>", "<pre>", "</pre>", "<!--", "<?php", "<script>", "| a | b |", "|---|:-:|", "a | b", "--- | ---",
               ": ", ":   ", "$$", "*[HTML]: Hyper", ".. note:: ", ".. toc::", ".. image:: x.png", ":::{note} ", ":::", "```{note} t",
               "```{toc}", "   :class: c", ":depth: 2", "- [ ] ", "- [x] ", ">! ", "* * *", "1. 1. ", "> - ", "- > ", ">     ", "-     "]


def md_line(rng, maxtoks=8):
    parts = [rng.choice(LINE_STARTS)]
    for _ in range(rng.randint(0, maxtoks)):
        r = rng.random()
        if r < 0.45:
            parts.append(rng.choice(WORDS))
            if rng.random() < 0.7:
                parts.append(" ")
        else:
            parts.append(rng.choice(INLINE_TOKS))
    return "".join(parts)


def md_doc(rng, maxlines=8, maxtoks=8):
    lines = []
    for _ in range(rng.randint(1, maxlines)):
        r = rng.random()
        if r < 0.15:
            lines.append("")
        else:
            lines.append(md_line(rng, maxtoks))
    end = rng.choice(["\n", "\n", "", "\n\n"])
    return "\n".join(lines) + end


def md_noise(rng, maxlen=40):
    toks = INLINE_TOKS + LINE_STARTS + ["\n", "\n", "\n\n", "\r\n", "\r"] + WORDS
    return "".join(rng.choice(toks) for _ in range(rng.randint(0, maxlen)))


def md_nested(rng):
    """container prefixes nested 3..9 deep (quotes, bullets, ordered items, mixed), then a block line; a few such lines"""
    lines = []
    for _ in range(rng.randint(1, 3)):
        depth = rng.choice([3, 4, 5, 5, 6, 6, 6, 7, 7, 8, 9])
        kind = rng.random()
        if kind < 0.35:
            pre = "> " * depth
        elif kind < 0.6:
            pre = "- " * depth
        elif kind < 0.7:
            pre = "1. " * depth
        else:
            pre = "".join(rng.choice(["> ", "- ", "1. ", "* ", ">"]) for _ in range(depth))
        body = rng.choice(["item", "- item", "- item", "* x", "1. one", "> q", "> q", "1. one", "# h", "```", "[foo]: /u", "-", "***", "    code", "<div>", "word word", "| a | b |", ": d", "[^1]: n"])
        lines.append(pre + body)
        if rng.random() < 0.3:
            lines.append("")
    return "\n".join(lines) + "\n"


def md_any(rng, maxlines=8):
    r = rng.random()
    if r < 0.08:
        return md_nested(rng)
    return md_doc(rng, maxlines) if r < 0.78 else md_noise(rng)
