"""Input generators (all randomness from the Ctx RNG)."""
import itertools

SPECIAL20 = ['&', '<', '>', '"', "'", '%', ';', '#', ' ', 'a', 'Z', '1', '\t', '\n', 'é', 'ß', '/', '\\', ' ', 'g']

UNI_RANGES = [(0x20, 0x7e)] * 6 + [(0x00, 0x1f), (0x7f, 0xff), (0x100, 0x24f), (0x370, 0x3ff), (0x400, 0x4ff),
              (0x1e00, 0x1eff), (0x2000, 0x206f), (0x3000, 0x303f), (0xfb00, 0xfb06), (0x10400, 0x1044f),
              (0x1f600, 0x1f64f), (0x1c4, 0x1cc), (0x1f0, 0x1f3), (0x130, 0x131), (0x3a3, 0x3c3), (0x1c80, 0x1c88),
              (0x2160, 0x217f), (0x24b6, 0x24e9), (0xff21, 0xff5a), (0x13a0, 0x13ff), (0xab70, 0xabbf)]


def exhaustive(alphabet, maxlen):
    for n in range(maxlen + 1):
        for t in itertools.product(alphabet, repeat=n):
            yield "".join(t)


def rand_char(rng):
    lo, hi = rng.choice(UNI_RANGES)
    while True:
        c = rng.randint(lo, hi)
        if not (0xD800 <= c <= 0xDFFF):
            return chr(c)


def rand_unicode(rng, maxlen=24):
    n = rng.randint(0, maxlen)
    return "".join(rand_char(rng) for _ in range(n))


ENTITY_BITS = ["&amp;", "&lt;", "&gt;", "&quot;", "&#60;", "&#x3C;", "&copy;", "&notit;", "&AElig", "&#0;", "&#xD800;",
               "&#1114112;", "%20", "%3c", "%", "%zz", "&", ";", "&;", "&#;", "&#x;", "&nbsp;", "&Tab;", "&NewLine;"]


def rand_mixed(rng, maxparts=8):
    parts = []
    for _ in range(rng.randint(0, maxparts)):
        r = rng.random()
        if r < 0.35:
            parts.append(rng.choice(ENTITY_BITS))
        elif r < 0.6:
            parts.append(rng.choice(SPECIAL20))
        else:
            parts.append(rand_unicode(rng, 4))
    return "".join(parts)


# ------------------------------------------------------------------------------------------------
# G_md: token-level Markdown

WORDS = ["alpha", "beta", "gamma", "delta", "foo", "bar", "baz", "qux", "Lorem", "ipsum", "x", "y", "Z", "hello",
         "world", "HTML", "note", "one", "two", "three"]

INLINE_TOKS = ["*", "**", "***", "_", "__", "`", "``", "[", "]", "(", ")", "![", "](", "<", ">", "\\", "\\*", "\\[",
               "&amp;", "&lt;", "&#35;", "&", "~~", "~", "^", "==", "$", "$$", "!", ">!", "!<", "^^", "[^1]", "[^a]",
               "<a>", "</a>", "<b>", "</b>", "<!--", "-->", "<?", "?>", "<http://x.y/z>", "<a@b.c>", "http://a.b/c",
               "https://e.f", "  ", "\t", " ", " ", " ", " ", "'", '"', ":", "|", "-", "=", "+", "#", "{", "}", "..",
               "javascript:", " ", "　", "é", "ß", " ", "[x]", "[ ]", "(u)", "(<u v>)", '(u "t")',
               "[foo]", "[FOO]", "[bar]", "*[HTML]: ", "\x0b", "\x0c", "\x1c"]

LINE_STARTS = ["", "", "", "# ", "## ", "###### ", "####### ", "> ", ">", "- ", "* ", "+ ", "1. ", "2) ", "10. ", "    ", "\t",
               "  ", "   ", "```", "~~~", "````", "```py", "---", "***", "===", "___", "[foo]: ", "[bar]: <u> 't'", "[^1]: ",
               "[^a]: ", "<div>", "</div>", "<pre>", "</pre>", "<!--", "<?php", "<script>", "| a | b |", "|---|:-:|", "a | b", "--- | ---",
               ": ", ":   ", "$$", "*[HTML]: Hyper", ".. note:: ", ".. toc::", ".. image:: x.png", ":::{note} ", ":::", "```{note} t",
               "```{toc}", "   :class: c", ":depth: 2", "- [ ] ", "- [x] ", ">! ", "* * *", "1. 1. ", "> - ", "- > ", ">     ", "-     "]


# syntax of the plugins' inline / block rules (formatting, url, math, speedup, ruby, spoiler): delimiters, well-formed
# spans, escaped and unclosed forms.  Used by the model correspondence (corr_model.py) for configurations with plugins;
# the stock generators above are unchanged.
PLUGIN_TOKS = ["~~", "~~", "==", "==", "^^", "^^", "^", "^", "~", "~", "$", "$", "$$", "~~~", "===", "^^^", "\\~", "\\=", "\\^", "\\$", "\\ ",
               "~~del~~", "~~a b~~", "~~a ~~", "~~ a~~", "~~a\\~~~", "~~a~~~", "~~*e*~~", "~~[x](/u)~~", "~~`c~~`", "~~<b>~~", "~~a\nb~~",
               "==mark==", "==a b==", "==a\\===", "==*e*==", "==a ==", "== a==", "==[foo]==", "==a~~b==c~~",
               "^^ins^^", "^^a b^^", "^^a\\^^^", "^^a ^^", "^^*e*^^", "^^a^b^^^",
               "^sup^", "^a\\ b^", "^a b^", "^a\\^b^", "^^", "^*e*^", "^[x](/u)^", "2^10^", "^a^b^",
               "~sub~", "~a\\ b~", "~a b~", "~a\\~b~", "H~2~O", "~*e*~", "~a~b~", "~~~a~",
               "$m$", "$a b$", "$ a$", "$a $", "$a$b$", "$$x$$", "$a\\$b$", "$*e*$", "$`c`$", "$<b>$", "$a\nb$", "$\n$", "$1 and $2",
               "http://a.b/c", "https://e.f", "http://a.b/c.", "https://e.f/g,h;", "http://a.b/c)", "http://a.b/(c)", "http://a.b/<c", "http://é.ß/ü?q=%20&x=1",
               "HTTP://A.B", "http://", "https://x", "http://a.b/c\"d", "[http://a.b/c](/u)", "<a>http://a.b/c</a>", "*http://a.b/c*", "http://a.b/&amp;&#35;",
               "http://a_b_c.d/e_f_", "http://a.b/`c`", "xhttp://a.b/c", "http:", "https:", "http:/a",
               "[漢字(kanji)]", "[a(b)]", "[a(b)c(d)]", "[a(b c)]", "[a(b)](/u)", "[a(b)](/u \"t\")", "[a(b)][foo]", "[a(b)][FOO]", "[a(b)][zz]", "[a(b)][]",
               "[a(b)][c(d)]", "[a(b)][c(d)](/u)", "[a(b)](", "[a(b)][", "[a()]", "[(b)]", "[a(b)", "[a(b) ]", "[a_1(b_2)]", "![a(b)]", "[a(b)](<u v>)", "[a(b)][a b]",
               ">!", "!<", ">!s!<", ">! s !<", ">!*e*!<", ">!a\nb!<", ">!  !<", ">!a!< >!b!<", ">!>!x!<!<", ">![x](/u)!<", ">!`c!<`",
               " ", " ", "\n", "  \n", " \n", "\\\n", "\n  ", "   \n   ", "\t\n"]

PLUGIN_LINES = ["$$", "$$", "$$ ", " $$", "   $$", "    $$", "$$\t", "$$x", "x$$", "$$\nx\n$$", "$$\n\n$$", "$$\nx\n$$\n$$\ny\n$$", "$$\n- a\n$$", "> $$\n> x\n> $$", "- $$\n  x\n  $$",
                "$$\nx\n $$", "$$\nx\n$$ y", "a\n$$\nx\n$$", "$$\n$$", "$$\n```\n$$\n```",
                "alpha beta", "alpha", "éa b", "_a_ b", "a", "a  ", "a\\", "1a", "-a", "ab\tc", "Z: y", "word word  ", "x <b> y", "x `c` y",
                ">! a", ">! a\n>! b", ">!a\n> b", ">! a\nb", " >! a", ">!\n>! b", ">! - a\n>! - b", "- >! a", "> >! a", ">! > a", ">!    code", ">! ```\n>! x\n>! ```", ">! a\n\n>! b",
                ">! a\n***", ">! a\n- b", "!a", "! a", ">!a!<", ">! # h", ">!\ta"]


def md_inline_plugins(rng, maxlines=6, maxtoks=8):
    """a document rich in the plugins' syntax: lines of words, stock inline tokens and PLUGIN_TOKS; block math, spoiler
    quotes and plain-paragraph lines (speedup) between them"""
    lines = []
    for _ in range(rng.randint(1, maxlines)):
        r = rng.random()
        if r < 0.1:
            lines.append("")
        elif r < 0.3:
            lines.append(rng.choice(PLUGIN_LINES))
        else:
            parts = [rng.choice(LINE_STARTS) if rng.random() < 0.3 else ""]
            for _ in range(rng.randint(0, maxtoks)):
                q = rng.random()
                if q < 0.35:
                    parts.append(rng.choice(WORDS))
                    if rng.random() < 0.7:
                        parts.append(" ")
                elif q < 0.75:
                    parts.append(rng.choice(PLUGIN_TOKS))
                else:
                    parts.append(rng.choice(INLINE_TOKS))
            lines.append("".join(parts))
    return "\n".join(lines) + rng.choice(["\n", "\n", "", "\n\n"])


def md_line(rng, maxtoks=8):
    parts = [rng.choice(LINE_STARTS)]
    for _ in range(rng.randint(0, maxtoks)):
        r = rng.random()
        if r < 0.45:
            parts.append(rng.choice(WORDS))
            if rng.random() < 0.7:
                parts.append(" ")
        else:
            parts.append(rng.choice(INLINE_TOKS))
    return "".join(parts)


def md_doc(rng, maxlines=8, maxtoks=8):
    lines = []
    for _ in range(rng.randint(1, maxlines)):
        r = rng.random()
        if r < 0.15:
            lines.append("")
        else:
            lines.append(md_line(rng, maxtoks))
    end = rng.choice(["\n", "\n", "", "\n\n"])
    return "\n".join(lines) + end


def md_noise(rng, maxlen=40):
    toks = INLINE_TOKS + LINE_STARTS + ["\n", "\n", "\n\n", "\r\n", "\r"] + WORDS
    return "".join(rng.choice(toks) for _ in range(rng.randint(0, maxlen)))


def md_nested(rng):
    """container prefixes nested 3..9 deep (quotes, bullets, ordered items, mixed), then a block line; a few such lines"""
    lines = []
    for _ in range(rng.randint(1, 3)):
        depth = rng.choice([3, 4, 5, 5, 6, 6, 6, 7, 7, 8, 9])
        kind = rng.random()
        if kind < 0.35:
            pre = "> " * depth
        elif kind < 0.6:
            pre = "- " * depth
        elif kind < 0.7:
            pre = "1. " * depth
        else:
            pre = "".join(rng.choice(["> ", "- ", "1. ", "* ", ">"]) for _ in range(depth))
        body = rng.choice(["item", "- item", "- item", "* x", "1. one", "> q", "> q", "1. one", "# h", "```", "[foo]: /u", "-", "***", "    code", "<div>", "word word", "| a | b |", ": d", "[^1]: n"])
        lines.append(pre + body)
        if rng.random() < 0.3:
            lines.append("")
    return "\n".join(lines) + "\n"


def md_any(rng, maxlines=8):
    r = rng.random()
    if r < 0.08:
        d = md_nested(rng)
    elif r < 0.24:
        d = md_struct(rng)
    else:
        d = md_doc(rng, maxlines) if r < 0.82 else md_noise(rng)
    if rng.random() < 0.12:
        d = mutate_ws(rng, d)
    return d


# ---------------------------------------------------------------- syntax-aware slot documents and whitespace mutations
EXOTIC_BREAKS = ["\x0b", "\x0c", "\x1c", "\x1d", "\x1e", "\x85", " ", " "]     # str.splitlines() splits here; Markdown does not

SLOT = {
    "L": ["foo", "bar", "HTML", "MAX_PATH_LEN", "a=b=c", "Foo.*", "C_LANG", " ", "\t", "", "x y", "x\ty", "X  Y", "ß", "ẞ", "<b>", "a*b*", "1", "a", "HT", "café", "x\ny", " pad ", "a.b-c"],
    "T": ["alpha", "beta gamma", "one two three", "<b>x</b>", "a <!-- c > d --> e", "`c`", "*e*", "**s**", "café", "日本 語", "a\x0cb", "a b", "[^1]", "[x]", "a < b", "say \"q\"", "a  b",
          "tail  ", "back\\slash", "&amp_x;", "a &copy_b; c", "&amp;", "&lt;tag&gt;", "x_y_z", "http://a.b/c", "a@b.cd", "\\&amp;lt;", "\\&copy;", "it's", "100%", "a|b", "$m$", "", " ", "[link](/u)",
          "![i](/p.png)", "<span a=\"1\">", "[foo]: /u", "[^1]: n", "*[HTML]: t", "~~d~~", "==m==", "^s^", "a*", "_u", "end.", "HTML", "[foo]", "[bar][foo]", ">!s!<", "[r(t)]"],
    "U": ["/u", "http://example.com/café", "http://e.com/a[1]", "http://e.com/a b", "javascript:x", "x.png", "a&b=\"c\"", "/u%20v", "", "<u>", "./README.md", "/a(b)c", "HTTP://E.F/g", "data:image/png;base64,A",
          "#frag", "//host/p", "mailto:a@b.c", "/ü", "/p&#xD800;q", "&#57343;x", "/a&#0;b", "/c&#x110000;d", "http://e.f/&#xDFFF;", "&#1114112;"],
    "C": ["a", "bb", "x \\| y", "`a|b`", "", " ", "a\x0cb", "*e*", "1", "a\\", "<b>", "&amp;", "c c"],
    "B": ["x = 1;\x0cy = 2", "a\n\nb", "", " ", "   ", "  x  ", "\tx", "a b", "<b>&amp;", "`", "a\\*b", "a\n   b", "*not em*", "&lt;", "x", "line1\nline2", " \n ", "a\x85b", "a\x1cb", "[foo]", "  "],
    "I": ["", "py", " py ", "py x", "&#32;", "{x}", "py&amp;", "\tpy", "c++", "a\"b"],
    "W": ["foo", "note", "alpha", "x", "HTML", "warning", "unknown", "toc", "lt", "copy"],
    "N": ["0", "00", "1", "2", "9", "10", "123456789", "007"],
    # digit-like values: str.isdigit() / \d accept more than int() does (superscripts, circled digits), other scripts' decimals, full-width forms,
    # values longer than int()'s 4300-digit limit, units and signs
    "D": ["10", "1\u00b2", "2\u2460", "10\u00b3\u00b9", "\u0663", "\u0967\u0968", "\uff10\uff10\uff17", "1" * 4400, "\u00bd", "1.5", "10%", "10px", "1e3", "-1", "+1", "0x10", "\uff11\uff10px", "7 ", "\u00b2", "\u2460", "1_000", "0"],
    "S": [" ", "  ", "   ", "\t", ""],
    "O": ["class", "text", "self", "name", "attrs", "title", "alt", "width", "max-level", "min-level", "collapse", "zqopt", "renderer", "key", "index", "encoding", "target", "figclass"],
    "I2": ["{.python}", "{#id}", "{r,echo=FALSE}", "{py:function}", "{.python .numberLines}", "{note", "note}", "{}", "{x y}"],
    "Q": [" ", "\t", "", "  ", " \t"],
    "K": ["", "\n", "\n\n", "\n\n\n"],
}

SLOT_TEMPLATES = [
    "*[{L}]: {T}\n\n{T} {L} {T}\n", "*[{L}]: {T}\n*[{L}]: {T}\n\nThe {L} and {L}{K}", "[^{L}]: {T}\n\n{T}[^{L}] {T}\n", "{T}[^{L}] and *x[^{L}]* again[^{L}]\n\n[^{L}]: {T}\n\n[^{L}]: {T}\n",
    "[{L}]: {U} \"{T}\"\n\n[{T}][{L}] and [{L}]\n", "[{L}]\n\n[{L}]: {U}\n[{L}]: {U}\n", "> {T}\n>{Q}[{L}]: {U}\n\n[{L}]\n", "- {T}\n\n {S}[{L}]: {U}\n\n[{L}]\n",
    "| {C} | {C} | {C} |\n|:--|:-:|--:|\n| {C} | {C} | {C} |\n| {C} | {C} |\n", "{C} | {C}\n--- | ---\n{C} | {C}\n{C} \\| {C} | {C}\n", "| {C} | {C} |\n|---|---|\n| {C} \\| {C} | {C} |\n| {T} | {T} |\n",
    "{T}\n| {C} | {C} |\n|---|---|\n| {C} | {C} |\n", "{T}\n{C} | {C}\n---- | -----\n{C} | {C}\n",
    "{W}\n: {T}\n\n  {T}\n: {T}\n", ": {T}\n: {T}\n", "# {T}\n\n: {T} more\n:   {T}\n",
    "```{I}\n{B}\n```\n", "~~~{I}\n{B}\n", "> ```\n> {B}\n> ```\n", "- ```\n  {B}\n  ```\n", "```{I}\n{B}{K}", "    {B}\n", "{T} `{B}` {T}\n", "{T} `` {B} `` {T}\n", "> - ~~~\n>   {B}\n>   ~~~\n",
    "# {T} [{L}]\n\n## {T} <!-- {T} > {T} --> {T}\n\n{T}\n", "# {T}[^{L}]\n\n{T}[^{W}]\n\n[^{L}]: {T}\n\n[^{W}]: {T}\n", "{T}[^{W}]\n\n# {T}[^{L}]\n\n{T}\n\n[^{L}]: {T}\n\n[^{W}]: {T}\n",
    ".. toc::\n\n# {T}\n\n## {T}\n\n# {T}\n", "```{{toc}}\n```\n\n# {T}\n\n### {T}\n", ".. toc:: {T}\n   :min-level: {N}\n   :max-level: {N}\n\n# {T}\n\n## {T}\n",
    ".. note:: {T}\n   :class: {T}\n\n   {T}\n", "```{{note}} {T}\n:class: {T}\n\n{T}\n```\n", ".. image:: {U}\n   :alt: {T}\n   :width: {T}\n   :height: {T}\n   :align: {T}\n   :target: {U}\n",
    ".. figure:: {U}\n   :figwidth: {T}\n   :figclass: {T}\n\n   {T}\n\n   {T}\n", ".. figure:: {U}\n\n   {T}\n", "```{{figure}} {U}\n\n{T}\n```\n", ".. note::\n\n   {T}\n", "```{{note}}\n{T}\n```\n", ".. image:: {U}\n\n   {T}\n", "- {T}\n:::{{note}}\n{T}\n:::\n", "- {T}\n```{{note}}\n{T}\n```\n", "1. {T}\n.. note:: {T}\n", "> {T}\n:::{{note}} {T}\n:::\n", ".. note:: {T}\n   :{O}: {T}\n\n   {T}\n", "```{{note}} {T}\n:{O}: {T}\n\n{T}\n```\n", "```{{note}} {T}\n:{O}:{T}\n{T}\n```\n", "```{{toc}} {T}\n:{O}:{N}\n```\n\n# {T}\n\n## {T}\n\n### {T}\n", ".. toc:: {T}\n   :{O}:{N}\n\n# {T}\n\n## {T}\n", ".. image:: {U}\n   :{O}: {T}\n", "```{{include}} {U}\n:{O}: {T}\n```\n", "```{{figure}} {U}\n:{O}: {T}\n\n{T}\n```\n", "```{I2}\n*{T}* [{T}]({U}) &amp;\n```\n\nafter {T}\n", "~~~{I2}\n{B}\n~~~\n", ".. figure:: {U}\n\n   {T}\n   - {T}\n   - {T}\n", "```{{figure}} {U}\n{T}\n> {T}\n```\n", "```{{figure}} {U}\n{T}\n# {T}\n```\n", "```{{figure}} {U}\n{T}\n```py\n{B}\n```\n```\n", "> ```{{note}}\n> {W}\n> :   - {T}\n>       - {T}\n>           - {T}\n> ```\n", "> > ```{{note}}\n> > {W}\n> > :   - {T}\n> > ```\n", "- ```{{note}}\n  {W}\n  :   > {T}\n  :   - - - {T}\n  ```\n", "```{{note}}\n{W}\n: - - - - - - {T}\n```\n", ".. note::\n\n   {W}\n   :   - {T}\n         - {T}\n", "> ```\n> {B}\n>\n", "> ```\n> {B}\n>\n>\n\n{T}\n", "> <?php\n> {T}\n>\n", "- ```\n  {B}\n\n", "> {T}\n>\n>\n", "<DIV>{T}\n</DIV>\n\n{T}\n", "<TABLE><TR><TD>\n{T}\n</TD></TR></TABLE>\n", "- {T}\n<DIV CLASS=\"foo\">\n{T}\n</DIV>\n", "<Pre>\n{B}\n</pre>\n\n{T}\n", "<PRE>\n{B}\n</PRE>\n\n{T}\n", "[{T}](x\\(y)[{T}](z)\n", "*[{T}](q\\()*[{T}](r)\n", "[{T}](<https://example.com/wiki/page(topic)>)\n", "![{T}](https://e.com/a_(b)) [{T}](/p(q)r)\n", "[{T}](/u)[{T}](/v)`)`\n", "{T}[^{L}]\n\n[^{L}]: {T}\n   {T}\n {T}\n  {T}\n\n   {T}\n {T}\n", "Wow![^{L}] {T}[^{W}] again[^{L}]\n\n[^{L}]: {T}\n\n[^{W}]: {T}\n", "![*see [the link [^{L}]](/u) here*](/pic.png) {T}[^{L}]\n\n[^{L}]: {T}\n", "https://a.b/x[^{L}] x^[^{L}] {T}\n\n[^{L}]: {T}\n", "{W}\n:   {T}\n\n        {B}  \n", "{W}\n: ```\n  {B} \t\n", "{W}\n:   {T}\n\n    ```\n    {B}   \n", "[![{T}]({U}) {T}](https://example.com/)\n", "[![{T}]({U})](https://example.com/)\n", "[*{T}* ![{T}]({U}) `{B}`]({U})\n", ".. include:: {U}\n", ".. {W}:: {T}\n\n   {T}\n", "```{{{W}}} {T}\n{T}\n```\n",
    "<{U}>\n", "[{T}]({U} \"{T}\")\n", "![{T}]({U})\n", "[{T}](<{U}> '{T}')\n", "{T} <http://example.com/{L}> {T}\n", "[http://e.com/{L}](<http://e.com/{L}>)\n",
    "{T}\n{S}{T}\n{S}{T}\n", "{T} `a\n{S}b` {T}\n", "{T} <a\n{S}href='x'> {T}\n", "> {T}\n{S}{T}\n", "- {T}\n{S}{T}\n",
    "{N}. {T}\n{N}. {T}\n", "{N}) {T}\n\n{N}) {T}\n", "- {T}\n\n  {N}. {T}\n",
    ".. image:: {U}\n   :width: {D}\n   :height: {D}\n", "```{{image}} {U}\n:width: {D}\n:height: {D}\n```\n", ".. figure:: {U}\n   :width: {D}\n   :figwidth: {D}\n\n   {T}\n", "```{{figure}} {U}\n:height: {D}\n:figwidth: {D}\n\n{T}\n```\n",
    ".. toc:: {T}\n   :min-level: {D}\n   :max-level: {D}\n\n# {T}\n\n## {T}\n", "```{{toc}}\n:max-level: {D}\n```\n\n# {T}\n", "{D}. {T}\n{D}. {T}\n", "{D}) {T}\n",
    "[{W}({W})]\n", "[{T}({T})]\n", "[{W}({T})] and [{T}({W})]\n", "${B}$\n", "$$\n{B}\n$$\n", "=={T}== ^{T}^ ~{T}~ ~~{T}~~ ^^{T}^^\n", "- [ ] {T}\n- [x] {T}\n", "&{W};{T} \\&{W}; &amp{T}\n", "{T} http://{L}.com/{L} {T} <{W}@{W}.com>\n",
    ">! {T}\n>! {T}\n", "{T} >!{T}!< {T}\n", "<div>\n{T}\n</div>\n\n{T}\n", "<pre>\n\n{B}\n\n\n", "{T}\n===\n\n{T}\n---\n", "{T}\\\n{T}  \n{T}\\\\\\\n{T}\n",
    "> > > > > > {T}\n\n> - {T}\n> - {T}\n>\n> > {T}\n", "- - - - - - {T}\n\n- {T}\n  - {T}\n", "[{L}]: {U}\n", "[{L}]: {U}\n[{W}]: {U} '{T}'\n",
]


def fill(rng, template):
    out = []
    i = 0
    memo = {}
    while i < len(template):
        c = template[i]
        if c == "{":
            if template.startswith("{{", i):
                out.append("{"); i += 2; continue
            j = template.index("}", i)
            k = template[i + 1:j]
            if k in memo and k in "LWN" and rng.random() < 0.7:
                v = memo[k]                # a label / name usually recurs (definition and use)
            else:
                v = rng.choice(SLOT[k]); memo[k] = v
            out.append(v); i = j + 1; continue
        if c == "}" and template.startswith("}}", i):
            out.append("}"); i += 2; continue
        out.append(c); i += 1
    return "".join(out)


def md_struct(rng):
    """one or two syntax templates with adversarial fillers (labels, cells, code bodies, info strings, urls, numbers)"""
    d = fill(rng, rng.choice(SLOT_TEMPLATES))
    if rng.random() < 0.3:
        d += ("" if d.endswith("\n") else "\n") + rng.choice(["", "\n"]) + fill(rng, rng.choice(SLOT_TEMPLATES))
    return d


def mutate_ws(rng, d):
    """whitespace mutations that keep the document's words: tab / exotic line-break characters for a space, indented
    continuation lines, extra trailing newlines"""
    if not d:
        return d
    r = rng.random()
    cs = list(d)
    if r < 0.3:
        idx = [i for i, c in enumerate(cs) if c == " "]
        if idx:
            cs[rng.choice(idx)] = rng.choice(EXOTIC_BREAKS + ["\t", " ", "　"])
    elif r < 0.6:
        idx = [i for i, c in enumerate(cs) if c == "\n" and i + 1 < len(cs) and cs[i + 1] not in "\n "]
        if idx:
            i = rng.choice(idx)
            cs[i] = "\n" + " " * rng.randint(1, 3)
    elif r < 0.8:
        cs.append("\n" * rng.randint(1, 3))
    else:
        idx = [i for i, c in enumerate(cs) if c.isalpha()]
        if idx:
            cs.insert(rng.choice(idx), rng.choice(EXOTIC_BREAKS))
    return "".join(cs)


def slot_sweep():
    """deterministic edge sweep: every template, every slot kind in it set (everywhere) to every filler of that kind, the
    other kinds at a plain default"""
    import re as _re
    default = {"O": "class", "I2": "{.python}", "L": "foo", "T": "alpha", "U": "/u", "C": "a", "B": "x", "I": "", "W": "note", "N": "1", "D": "10", "S": " ", "Q": " ", "K": "\n"}
    out = []
    for tpl in SLOT_TEMPLATES:
        kinds = sorted(set(_re.findall(r"(?<!\{)\{([A-Z])\}", tpl)))
        for k in kinds:
            for v in SLOT[k]:
                vals = dict(default); vals[k] = v
                d = _re.sub(r"(?<!\{)\{([A-Z])\}", lambda m: vals[m.group(1)], tpl).replace("{{", "{").replace("}}", "}")
                out.append(d)
    return out


SOUP = ["![", "[", "](d)", "](d*)", "](d_)", "](<d*>)", "](d \"t*\")", "](d '_t')", "][foo]", "]", "*", "**", "_", "__", "***", "`", "``", "<b>", "</b>", "<http://x.y/*>",
        "<a href=\"*\">", "*[", "]*", "_[", "]_", "![c](d*)", "[c](d_)", "`*`", "~~", "==", "^", "\\*", "\\["]


def crossing(rng):
    """an emphasis-like opener inside a link text / image description whose only partner lies inside a higher-precedence construct
    (destination, title, label, code span, autolink, HTML attribute) of a nested link or image"""
    w = rng.sample(WORDS, 6)
    delim = rng.choice(["*", "**", "_", "__", "~~", "==", "***"])
    inner = rng.choice(["![%s](d%s)", "[%s](d%s)", "`%s%s`", "<http://x.y/%s%s>", "<b title=\"%s%s\">", "![%s][r%s]", "[%s][r%s]", "[%s](d \"t%s\")", "![%s](<d %s>)"]) % (w[0], delim)
    body = "%s %s%s %s %s" % (w[1], delim, w[2], inner, w[3])
    outer = rng.choice(["![%s](f)", "[%s](/f)", "![%s][foo]", "[%s][foo]", "*%s*", "%s", "![%s](f \"t\")", "> ![%s](f)", "# [%s](f)"]) % body
    return "%s %s %s\n\n[foo]: /u 't'\n\n[r%s]: /r\n" % (w[4], outer, w[5], delim)


def bracket_soup(rng):
    """one paragraph of brackets, images, destinations and emphasis delimiters that cross each other (a delimiter's partner inside a destination,
    a title, a code span, an autolink or a nested image), with distinct words in between; reference `[foo]` is defined"""
    if rng.random() < 0.4:
        return crossing(rng)
    words = rng.sample(WORDS, min(len(WORDS), 12))
    parts = []
    for i in range(rng.randint(3, 12)):
        parts.append(rng.choice(SOUP))
        if rng.random() < 0.75:
            parts.append(rng.choice(["", " "]) + words[i % len(words)] + rng.choice(["", " "]))
    return "".join(parts) + "\n\n[foo]: /u 't'\n"


URL_UNSAFE = ['"', "<", ">", " ", "'", "`", "\\", "{", "|", "^", "\u00e9", "\n", "\t", "[", "]", "&quot;", "&lt;", "&#34;", "%22", "\x7f", "\u202e", "(", ")", ".."]
URL_HOSTS = ["[::1]", "[fe80::1%25eth0]", "[fe80::1%eth0]", "[2001:db8::ff00:42:8329]", "[::ffff:192.0.2.1]", "[v1.fe80::a+en1]", "[::]", "[1:2:3:4:5:6:7:8]", "[fe80::1%25]", "[::1%25a%25b]",
             "127.0.0.1", "example.com", "b\u00fccher.de", "xn--bcher-kva.de", "%65xample.com", "localhost", "", "[", "[]", "[::1", "::1]",
             # hosts that are not valid IDNA: empty labels, over-long labels, mixed direction, digits at the edge of a right-to-left label, xn-- with non-ASCII
             "b\u00fccher..example", ".\u00e9xample.org", "\u00e9" + "a" * 70 + ".com", "a\u05d0.com", "\u05d01.com", "xn--b\u00fccher.de", "\u00e9.", "\u00df.\u00df", "-\u00e9-.com", "\u200d.com", "\u0301x.com"]


def url_struct(rng):
    """a URL assembled from its RFC 3986 components (IPv6 / IPvFuture literals with zone ids, user info, ports, IDN hosts valid and invalid, encoded octets) with up to
    two unsafe characters dropped into random components"""
    comp = [rng.choice(["http", "https", "ftp", "HTTP", "x+y.z-w", "", "mailto", "data"]), rng.choice(["://", "://", ":", "//", ":/"]), rng.choice(["", "", "user@", "u:p@", "@"]),
            rng.choice(URL_HOSTS), rng.choice(["", "", ":80", ":", ":x"]), rng.choice(["", "/", "/p/q", "/a%20b", "/%zz"]), rng.choice(["", "?a=1&b=2", "?", "?q=[x]"]), rng.choice(["", "#f", "#", "#a#b"])]
    for _k in range(rng.randint(0, 2)):
        j = rng.randrange(len(comp))
        u = rng.choice(URL_UNSAFE)
        c = comp[j]
        cut = rng.randint(0, len(c))
        if c.endswith("]") and rng.random() < 0.6:
            cut = len(c) - 1
        comp[j] = c[:cut] + u + c[cut:]
    return "".join(comp)


def url_doc(rng):
    """a structured URL in one of the places a destination can stand"""
    u = url_struct(rng)
    return rng.choice(["[x](%s)", "[x](<%s>)", "![x](%s)", "[r]: %s\n\n[r]", "[r]: <%s>\n\n![r]", "<%s>", "see %s now", ".. image:: %s", "```{image} %s\n```", "[x](%s \"t\")", "[a](%s) [b](%s)", "[x](%s"]).replace("%s", u) + "\n"


def link_tail(rng):
    """an inline link / image whose destination part is cut or unbalanced in every way, followed by ordinary characters up to the end of the text"""
    dest = "".join(rng.choice(["foo", "(", ")", "(bar", "a(b)c", "<", ">", "\"t", " ", "\\(", "\\)", "%28", "'", "((", "))", "x y"]) for _ in range(rng.randint(0, 4)))
    end = rng.choice(["", ")", ").", ") x", "x", "\n", ".", "))", ")(", " \"t\")", " 't'", ")\n\nnext"])
    return rng.choice(["see [x](", "![x](", "[a [b](", "*[x](", "[x][y](", "- [x]("]) + dest + end + rng.choice(["", "\n"])


# ---------------------------------------------------------------- block-plugin syntax: tables, footnotes, task lists, definition lists, abbreviations
# (used by corr_model.py for configurations that have these plugins: the stock generators reach their handlers too rarely)
P_CELL = SLOT["C"] + ["x \\\\| y", ":-", "---", " a ", "\\|", "a\\\\", "[^1]", "[foo]", "`|`", "**b**", "||", "a\tb", "a\x0cb", "\\", "é", "　", "*x", "[a](/u)", "<b>", ""]
P_ALIGN = ["---", ":--", "--:", ":-:", "-", ":", ":-:-", " --- ", ":--- ", "- -", "::", ":-- :", "", "=", "---\t", " :-: ", "-:", ":-", "--- ", "a"]
P_KEYS = ["1", "a", "A", "note", "a b", "a  b", "ß", "x]", "", " ", "1\\]", "é", "long key here", "^"]
P_TEXT = SLOT["T"] + ["[^1]", "[^a]", "[^A]", "[^note]", "[foo]", "*e [^1]*", "[l [^a]](/u)", "![i [^a]](/u)", "`[^1]`", "*x [^a] `y* z`", "*x [l [^1]](/u", "**s [^a]** [^1]", "<a> [^1] </a>",
                     "[^1][^1]", "[^a b]", "[^A  B]", "[^x\\]]", "[^nope]", "[[^1]](/u)", "[^1]: x", "\\[^1]", "[^1](/u)", "[x][^1]", "![^1]", "_a [^1]_ __b [^a]__", "***[^1]***"]
P_DEFBODY = ["{T}", "{T}\n    {T}", "{T}\n  {T}\n  {T}", "{T}\n\n    {T}", "{T}\n\n  {T}\n\n  {T}", "\n    {T}", "{T}\n   - {T}\n   - {T}", "{T}\n  > {T}", "{T}\n\n        code", "{T}\n \t{T}", "{T}\n    {T}\n\n\n    {T}",
             "{T}\n  [foo]: /fn", "{T}\n   {T}\n {T}\n  {T}", "{T}\n{T}", "{T}\x0c  {T}\n  {T}", "", " ", "{T}\n  \n  {T}", "{T}\n   ```\n   {T}\n   ```"]


def _pfill(rng, t):
    while "{T}" in t:
        t = t.replace("{T}", rng.choice(P_TEXT), 1)
    return t


def p_table(rng):
    n = rng.randint(1, 4)
    np_style = rng.random() < 0.4
    wrap = (not np_style) or rng.random() < 0.15
    clean = rng.random() < 0.6          # a well-formed table (escaped pipes, alignments, trailing blanks); otherwise anything goes
    def row(k, al=False):
        if clean:
            cells = [rng.choice([":--", "--:", ":-:", "---", "-", ":---- "] if al else ["a", "bb", "x \\| y", "*e*", "1", "`c`", "a\\\\", "é", "[^1]", "c c", "&amp;", "\\|", "<b>"]) for _ in range(n)]
            body = rng.choice([" | ", "|", " |", "| "]).join(cells)
            if wrap or rng.random() < 0.05:
                body = "|" + rng.choice(["", " "]) + body + rng.choice(["", " "]) + "|"
            return rng.choice(["", "", " ", "   "]) + body + rng.choice(["", "", " ", "\t"])
        cells = [(rng.choice(P_ALIGN[:4] + [" --- ", ":--- ", " :-: "]) if rng.random() < 0.8 else rng.choice(P_ALIGN)) if al else rng.choice(P_CELL) for _ in range(k)]
        sep = rng.choice(["|", " | ", " | ", "| ", " |", "  |  "])
        if al and np_style and rng.random() < 0.85:
            cells[0] = cells[0].lstrip() or "-"
        body = sep.join(cells)
        r = rng.random()
        if np_style and r < 0.8:
            line = body
        elif r < 0.9:
            line = "|" + rng.choice(["", " "]) + body + rng.choice(["", " "]) + "|"
        else:
            line = rng.choice(["|" + body, body + "|", body])
        return rng.choice(["", "", "", " ", "   ", "    "]) + line + rng.choice(["", "", "", " ", "\t", "  "])
    def width():
        return n if rng.random() < 0.88 else max(1, n + rng.choice([-1, 1]))
    lines = []
    if rng.random() < 0.25:
        lines.append(rng.choice(WORDS))
    lines.append(row(width()))
    lines.append(row(width(), True))
    for _ in range(rng.choice([0, 1, 1, 2, 2, 3])):
        lines.append(row(n if rng.random() < 0.95 else width()))
    if rng.random() < 0.3:
        lines.append(rng.choice(["", "tail", "- x", "> q", "| z |", "a | b"]))
    return "\n".join(lines) + rng.choice(["\n", "\n", "", "\n\n"])


def p_footnotes(rng):
    keys = [rng.choice(P_KEYS) for _ in range(rng.randint(1, 3))]
    parts = []
    def para():
        ws = []
        for _ in range(rng.randint(1, 5)):
            r = rng.random()
            if r < 0.45:
                ws.append("[^%s]" % rng.choice(keys + ["1", "a"]))
            elif r < 0.6:
                ws.append(rng.choice(["*e [^%s]*", "[l [^%s]](/u)", "![i [^%s]](/u)", "**s [^%s]**", "*x [^%s] `y* z`", "*x [l [^%s]](/u", "[t [^%s]][foo]", "_a *b [^%s]* c_", "`[^%s]`"]) % rng.choice(keys))
            else:
                ws.append(rng.choice(WORDS))
        return rng.choice(["", "", "# ", "> ", "- ", "1. "]) + " ".join(ws)
    def definition():
        k = rng.choice(keys + ["1", "a"])
        if rng.random() < 0.3:
            k = k.upper() if rng.random() < 0.5 else k + " "
        lead = rng.choice(["", "", "", " ", "  ", "   ", "    "])
        body = _pfill(rng, rng.choice(P_DEFBODY))
        body = body.replace("\n", "\n" + lead) if lead and rng.random() < 0.7 else body
        return lead + "[^%s]:%s%s" % (k, rng.choice([" ", " ", " ", "\t", "  ", ""]), body)
    for _ in range(rng.randint(2, 6)):
        r = rng.random()
        if r < 0.45:
            parts.append(para())
        elif r < 0.9:
            parts.append(definition())
        else:
            parts.append(rng.choice(["[foo]: /u 't'", "[fn]: /x", "---", "```", "    code"]))
    seps = [rng.choice(["\n\n", "\n\n", "\n", "\n\n\n"]) for _ in parts]
    return "".join(p + s for p, s in zip(parts, seps))


P_TASK = ["- [ ] {T}", "- [x] {T}", "- [X] {T}", "* [ ] {T}", "+ [x]\t{T}", "1. [ ] {T}", "2) [x] {T}", "- [ ]{T}", "- [ ]", "- [x] ", "- [ ]  {T}", "-  [ ] {T}", "- [  ] {T}", "- [y] {T}", "- [] {T}", "- [ ]\x0c{T}",
          "- [ ]　{T}", "- [x]\n  {T}", "- [ ] {T}\n  {T}", "- [ ] {T}\n\n  {T}", "- # [ ] {T}", "- > [ ] {T}", "- - [x] {T}", "- [ ] {T}\n  - [x] {T}\n    - [ ] {T}", "- {T}\n  - [ ] {T}", "- ```\n  [ ] {T}\n  ```",
          "-     [ ] {T}", "- \\[ ] {T}", "- [x] [x] {T}", "> - [ ] {T}", "- [ ] [foo]: /u", "- [ ] | a | b |\n  |---|---|", "- \n  [ ] {T}", "-\t[ ] {T}", "- [ ] {T}\n{T}", "- [x] *{T}", "- [ ] `{T}"]


def p_tasks(rng):
    lines = [_pfill(rng, rng.choice(P_TASK)) for _ in range(rng.randint(1, 5))]
    sep = rng.choice(["\n", "\n", "\n\n"])
    return sep.join(lines) + rng.choice(["\n", "\n", ""])


P_TERM = ["term", "{T}", "Apple", "a\nb", "term one\nterm two", "  indented", "- item", "> q", "# h", "t\x0cu", "\tt", "[foo]: /u", "x:", ":", "a : b", "| a | b |"]
P_DD = [": {T}", ":   {T}", ":\t{T}", ": {T}\n{T}", ": {T}\n  {T}", ":   {T}\n\n    {T}", ": {T}\n\n  {T}\n\n      code", ": - {T}\n  - {T}", ":   - {T}\n    - {T}", ": > {T}", ": ```\n  {T}\n  ```", ":   {T}\n\n        {T}",
        ": [foo]: /u", ": # {T}", ":{T}", ":  ", ": {T}  ", ": {T}\n \n", ": {T}\n\t{T}", ": {T}\n\n\t{T}", ":     {T}", ": {T}\n\n\n  {T}", ": 1. {T}\n   2. {T}", ": {T}\n: {T}", ": {T}\n\n: {T}", ": a:b\n  : c", ":    {T}\n     {T}", ": {T}\x0c:{T}"]


def p_deflist(rng):
    groups = []
    for _ in range(rng.randint(1, 3)):
        g = _pfill(rng, rng.choice(P_TERM)) + "\n"
        if rng.random() < 0.2:
            g += "\n"
        dds = [_pfill(rng, rng.choice(P_DD)) for _ in range(rng.randint(1, 3))]
        g += rng.choice(["\n", "\n", "\n\n"]).join(dds)
        groups.append(g)
    d = rng.choice(["\n", "\n\n", "\n\n", "\n \n"]).join(groups)
    if rng.random() < 0.2:
        d = rng.choice(WORDS) + "\n\n" + d
    return d + rng.choice(["\n", "\n", "", "\n\ntail\n", "\ntail\n", "\n\n"])


def p_abbr(rng):
    keys = [rng.choice(["HTML", "W3C", "a b", "x", "C++", "Foo.*", "é", "HT", "[k]", "a\\]"]) for _ in range(rng.randint(1, 3))]
    parts = []
    for _ in range(rng.randint(2, 5)):
        r = rng.random()
        if r < 0.5:
            parts.append(" ".join(rng.choice(keys + WORDS + ["*HTML*", "`HTML`", "[HTML](/u)", "HTMLHTML", "xHTMLx"]) for _ in range(rng.randint(1, 6))))
        else:
            parts.append(rng.choice(["", " ", "   ", "    "]) + "*[%s]:%s%s" % (rng.choice(keys), rng.choice(["", " ", "  ", "\t"]), rng.choice(["Hyper Text", "", " ", "t", "\n    indented text", "\n  two", "x\n"])))
    return "".join(p + rng.choice(["\n", "\n\n"]) for p in parts)


P_GENS = {"table": p_table, "footnotes": p_footnotes, "task_lists": p_tasks, "def_list": p_deflist, "abbr": p_abbr}


def md_plugins(rng, plugins=None):
    """one to three pieces of block-plugin syntax of the given plugins (default: all five), optionally mixed with token-level lines, put into a container, or whitespace-mutated"""
    names = [p for p in (plugins or sorted(P_GENS)) if p in P_GENS] or sorted(P_GENS)
    pieces = []
    for _ in range(rng.choice([1, 1, 1, 2, 2, 3])):
        r = rng.random()
        if r < 0.8:
            pieces.append(P_GENS[rng.choice(names)](rng))
        else:
            pieces.append(md_doc(rng, 3))
    d = ""
    for p in pieces:
        if d and not d.endswith("\n"):
            d += "\n"
        if d and rng.random() < 0.7:
            d += "\n"
        d += p
    r = rng.random()
    if r < 0.12:
        pre = rng.choice(["> ", "- ", "  ", "1. ", ">"])
        cont = {"> ": "> ", "- ": "  ", "  ": "  ", "1. ": "   ", ">": ">"}[pre]
        ls = d.split("\n")
        d = "\n".join((pre if i == 0 else (cont if l or rng.random() < 0.5 else "")) + l for i, l in enumerate(ls))
    if rng.random() < 0.1:
        d = mutate_ws(rng, d)
    return d


# ---------------------------------------------------------------------------------------------------------------
# directives (mistune.directives): RST syntax `.. name:: title`, fenced syntax ```{name} title (markers "`~" or custom ":")

DIR_NAMES = ["note", "note", "tip", "warning", "attention", "caution", "danger", "error", "hint", "important", "image", "image", "figure", "figure",
             "toc", "toc", "include", "unknown", "Note", "code-block", "x_y", "a-b", "9"]
DIR_TITLES = ["", "", "title", "A *b* title", "pic.png", "/u?a=b&c", "<javascript:alert(1)>", "a b.md", "x&amp;y", "`c`", "[t](/u)", "{x}", ":k: v", "é%20"]
DIR_OPTIONS = [("class", ["x", "a b", "", "<q>"]), ("alt", ["text", "", "a \"b\""]), ("width", ["100", "50%", "1.5em", "x", "", ".5"]),
               ("height", ["20", "2.", "px", "١٢"]), ("align", ["left", "center", "top", "LEFT", "nowhere", ""]),
               ("target", ["/t", "http://e.com/a b", "javascript:x", "", "&amp;"]), ("figwidth", ["80%", ""]), ("figclass", ["c1 c2", ""]),
               ("min-level", ["1", "2", "0", "x", "", "-1", "4", " 2 ", "1_0"]), ("max-level", ["3", "2", "1", "7", "y", ""]), ("collapse", ["", "yes"]),
               ("encoding", ["utf-8", "nope"]), ("bogus", ["v", ":", "a:b"]), ("a-b_9", ["v"])]


def _dir_option_lines(rng):
    out = []
    for _ in range(rng.choice([0, 0, 1, 1, 2, 3, 5])):
        k, vs = rng.choice(DIR_OPTIONS)
        sep = rng.choice([" ", " ", "", "  "])
        line = ":" + k + ":" + sep + rng.choice(vs) + rng.choice(["", "", " "])
        if rng.random() < 0.05:
            line = rng.choice([":" + k, k + ": v", ": " + k + ": v", ":" + k + " : v", "::"])
        out.append(line)
        if rng.random() < 0.1:
            out.append("")
    return out


def _dir_body_lines(rng, kind, depth):
    r = rng.random()
    if r < 0.2:
        return []
    if r < 0.45 and depth < 8:
        pre = [rng.choice(WORDS)] if rng.random() < 0.4 else []
        post = ["", rng.choice(WORDS)] if rng.random() < 0.3 else []
        return pre + directive(rng, kind, depth + 1).rstrip("\n").split("\n") + post
    if r < 0.55:
        return rng.choice([["- a", "- b"], ["> q", "lazy"], ["[r]: /ref 'T'"], ["[r]: /ref", "", "[r]"], ["# h", "", "p"], ["para", "", "second", "", "- li"],
                           ["```", "code", "```"], ["~~~{x}", "y", "~~~"], ["    indented"], ["| a | b |", "|---|---|", "| 1 | 2 |"], ["[^1]: note"], ["t", ": d"]])
    return md_doc(rng, 3, 4).rstrip("\n").split("\n")


def directive(rng, kind, depth=0):
    """one directive in the syntax of `kind` ("rst" | "fenced" | "fenced-colon"); bodies nest further directives"""
    name = rng.choice(DIR_NAMES)
    title = rng.choice(DIR_TITLES)
    opts = _dir_option_lines(rng)
    body = _dir_body_lines(rng, kind, depth)
    gap = rng.choice([[], [""], [""], ["", ""]])
    if kind == "rst":
        sp = rng.choice([1, 1, 1, 2, 3])
        head = ".." + " " * sp + name + "::" + rng.choice([" ", " ", "", "  "]) + title
        if rng.random() < 0.04:
            head = rng.choice([".." + name + "::", ".. " + name + ":", ".. " + name + " ::" + title, " .. " + name + "::", ".. ::"])
        base = 2 + sp
        def ind(l, extra_ok=True):
            if not l:
                return "" if rng.random() < 0.8 else " " * base
            k = base + (rng.choice([0, 0, 0, 0, 1, 3, 4]) if extra_ok else 0)
            if rng.random() < 0.04:
                k = max(0, base - rng.choice([1, 2]))
            return " " * k + l
        lines = [head] + [ind(l) for l in opts] + (gap if (opts or body) else []) + [ind(l, False) if depth or rng.random() < 0.9 else ind(l) for l in body]
        return "\n".join(lines) + rng.choice(["\n", "\n", "", "\n\n"])
    chars = ":" if kind == "fenced-colon" else "`~"
    if rng.random() < 0.1:
        chars = "`~:"
    c = rng.choice(chars)
    n = max(3, 3 + (8 - depth if depth or rng.random() < 0.3 else rng.choice([0, 0, 1, 2])) - 5) if rng.random() < 0.7 else rng.choice([3, 4, 5])
    lead = rng.choice(["", "", "", "", " ", "   "])
    head = lead + c * n + rng.choice(["", "", "", " "]) + "{" + name + "}" + rng.choice([" ", " ", "", "  "]) + title
    if rng.random() < 0.04:
        head = rng.choice([c * 2 + "{" + name + "}", c * n + "{" + name, c * n + "{}", c * n + " x {" + name + "}", c * n + name])
    close = rng.choice([c * n, c * n, c * n, c * (n + 1), c * n + "  ", " " + c * n, None, c * max(1, n - 1), c * n + " x"])
    lines = [head] + opts + (gap if rng.random() < 0.7 else []) + body + ([close] if close is not None else [])
    return "\n".join(lines) + rng.choice(["\n", "\n", "", "\n\n"])


def dir_list_break(rng, kind):
    """a list item followed by a (possibly too short) directive fence at the margin: `_parse_list_item` has `fenced_directive` among its break
    rules when the rule is registered, with the first "3" of its pattern (the fence-length quantifier) replaced by the leading width"""
    c = ":" if kind == "fenced-colon" else rng.choice("`~:")
    bullet = rng.choice(["- ", "-", "* ", "+ ", "1. ", "1.", "12. ", " - ", "  - ", "   - ", "1) "])
    first = rng.choice(["a", "", "a b", "[x]"])
    n = rng.choice([1, 1, 2, 2, 3, 4])
    name = rng.choice(DIR_NAMES)
    lead = rng.choice(["", "", "", " ", "  "])
    lines = [bullet + first] + (["  more"] if rng.random() < 0.2 else []) + [lead + c * n + "{" + name + "}" + rng.choice(["", " T", " " + rng.choice(DIR_TITLES)])]
    lines += _dir_option_lines(rng)[:2] + rng.choice([[], ["body"], ["", "body"], ["- b"]])
    close = rng.choice([c * n, c * n, c * (n + 1), None, c * 3, c])
    if close is not None:
        lines.append(close)
    return "\n".join(lines) + rng.choice(["\n", "\n", ""])


def md_directives(rng, kind):
    """one or two directives of the syntax, optionally between token-level lines, inside a container, or whitespace-mutated"""
    if kind != "rst" and rng.random() < 0.1:
        return dir_list_break(rng, kind)
    pieces = []
    for _ in range(rng.choice([1, 1, 1, 2])):
        pieces.append(directive(rng, kind) if rng.random() < 0.85 else md_doc(rng, 2, 4))
    d = ""
    for p in pieces:
        if d and not d.endswith("\n"):
            d += "\n"
        if d and rng.random() < 0.6:
            d += "\n"
        d += p
    r = rng.random()
    if r < 0.15:
        pre = rng.choice(["> ", "- ", "  ", "1. ", ">", "para\n"])
        cont = {"> ": "> ", "- ": "  ", "  ": "  ", "1. ": "   ", ">": ">", "para\n": ""}[pre]
        ls = d.split("\n")
        d = "\n".join((pre if i == 0 else (cont if l or rng.random() < 0.5 else "")) + l for i, l in enumerate(ls))
    if rng.random() < 0.06:
        d = mutate_ws(rng, d)
    return d
