"""The documented token grammar (C05) as an executable predicate on real token lists.
wf(tokens, max_nested) -> None if well-formed else (path, reason)."""
import json

INLINE = {"text", "codespan", "inline_html", "emphasis", "strong", "link", "image", "linebreak", "softbreak", "strikethrough", "mark",
          "insert", "superscript", "subscript", "inline_spoiler", "footnote_ref", "abbr", "inline_math", "ruby"}
INLINE_LEAF_RAW = {"text", "codespan", "inline_html", "footnote_ref", "inline_math", "ruby"}
INLINE_EMPTY = {"linebreak", "softbreak"}
INLINE_CONTAINER = INLINE - INLINE_LEAF_RAW - INLINE_EMPTY

BLOCK_INLINE_CHILDREN = {"paragraph", "block_text", "heading", "table_cell", "def_list_head", "figcaption", "admonition_title", "toc"}
BLOCK_BLOCK_CHILDREN = {"block_quote", "list_item", "task_list_item", "def_list_item", "footnote_item", "block_spoiler", "admonition_content", "legend"}
BLOCK_LEAF_RAW = {"block_code", "block_html", "block_error", "block_math", "include"}
BLOCK_EMPTY = {"thematic_break", "blank_line", "block_image"}
BLOCK_SPECIAL = {"list": {"list_item", "task_list_item"}, "table": {"table_head", "table_body"}, "table_head": {"table_cell"},
                 "table_body": {"table_row"}, "table_row": {"table_cell"}, "def_list": {"def_list_head", "def_list_item"},
                 "footnotes": {"footnote_item"}, "admonition": {"admonition_title", "admonition_content"},
                 "figure": {"block_image", "figcaption", "legend"}}
# types that may only appear under their special parent
ONLY_UNDER = {"list_item": "list", "task_list_item": "list", "table_head": "table", "table_body": "table", "table_row": "table_body", "table_cell": None,
              "def_list_head": "def_list", "def_list_item": "def_list", "footnote_item": "footnotes", "admonition_title": "admonition",
              "admonition_content": "admonition", "figcaption": "figure", "legend": "figure"}
BLOCK = BLOCK_INLINE_CHILDREN | BLOCK_BLOCK_CHILDREN | BLOCK_LEAF_RAW | BLOCK_EMPTY | set(BLOCK_SPECIAL)
RAW_RENDER_TYPES = INLINE_LEAF_RAW | BLOCK_LEAF_RAW      # render_token passes token["raw"] as the first argument
CONTAINERS_COUNTED = {"block_quote", "list", "block_spoiler"}     # quote/list nesting that max_nested_level limits


def wf(tokens, max_nested=6):
    try:
        json.dumps(tokens)
    except (TypeError, ValueError) as e:
        return ("", "not JSON-serialisable: %s" % e)
    if not isinstance(tokens, list):
        return ("", "result is not a list")
    return _seq(tokens, "", "block-top", 0, max_nested)


def _seq(toks, path, ctx, depth, mx):
    for i, t in enumerate(toks):
        r = _tok(t, "%s/%d" % (path, i), ctx, depth, mx)
        if r:
            return r
    return None


def _tok(t, path, ctx, depth, mx):
    if not isinstance(t, dict):
        return (path, "token is not a dict")
    ty = t.get("type")
    if not isinstance(ty, str):
        return (path, "type is not a string")
    path = path + ":" + ty
    if "text" in t:
        return (path, "left-over unprocessed text field")
    if "raw" in t and "children" in t:
        return (path, "both raw and children")
    if "raw" in t and not isinstance(t["raw"], str):
        return (path, "raw is not a string")
    if "children" in t and not isinstance(t["children"], list):
        return (path, "children is not a list")
    if "attrs" in t and not isinstance(t["attrs"], dict):
        return (path, "attrs is not a dict")
    attrs = t.get("attrs") or {}
    inline_ctx = ctx == "inline"
    if inline_ctx:
        if ty not in INLINE:
            return (path, "non-inline token inside an inline container")
    else:
        if ty not in BLOCK:
            return (path, "unknown or inline token %r in a block container" % ty)
        if isinstance(ctx, set):
            if ty not in ctx:
                return (path, "token %r not allowed directly under its parent (allowed: %s)" % (ty, sorted(ctx)))
        elif ty in ONLY_UNDER and ty != "table_cell":
            return (path, "token %r outside its container" % ty)
    # shape per type
    if ty in INLINE_LEAF_RAW or ty in BLOCK_LEAF_RAW:
        if "raw" not in t:
            return (path, "leaf without raw")
    elif ty in INLINE_EMPTY or ty in BLOCK_EMPTY:
        if "raw" in t or "children" in t:
            return (path, "empty token carries raw/children")
    else:
        if "children" not in t:
            return (path, "container without children")
    if ty == "heading":
        lv = attrs.get("level")
        if not (isinstance(lv, int) and not isinstance(lv, bool) and 1 <= lv <= 6):
            return (path, "heading level %r" % (lv,))
    if ty == "list":
        if not isinstance(attrs.get("ordered"), bool) or not isinstance(attrs.get("depth"), int):
            return (path, "list without ordered/depth")
        if "start" in attrs and (not isinstance(attrs["start"], int) or isinstance(attrs["start"], bool)):
            return (path, "list start is not an integer")
    if ty in ("link", "image"):
        if not isinstance(attrs.get("url"), str):
            return (path, "link/image without url string")
    if ty == "footnote_ref":
        if not (isinstance(attrs.get("index"), int) and attrs["index"] >= 1):
            return (path, "footnote_ref without index")
    if ty == "table":
        ch = t["children"]
        if len(ch) != 2 or ch[0].get("type") != "table_head" or ch[1].get("type") != "table_body":
            return (path, "table children are not [head, body]")
        head = ch[0].get("children") or []
        aligns = [(c.get("attrs") or {}).get("align") for c in head]
        for r_i, row in enumerate(ch[1].get("children") or []):
            cells = row.get("children") or []
            if len(cells) != len(head):
                return (path, "table row %d has %d cells, header has %d" % (r_i, len(cells), len(head)))
            if [(c.get("attrs") or {}).get("align") for c in cells] != aligns:
                return (path, "table row %d alignment differs from its columns" % r_i)
    if ty == "table_cell":
        if attrs.get("align") not in ("left", "right", "center", None) or not isinstance(attrs.get("head"), bool):
            return (path, "table_cell attrs")
    # nesting
    nd = depth + (1 if ty in CONTAINERS_COUNTED else 0)
    if nd > mx:
        return (path, "quote/list nesting %d exceeds the maximum %d" % (nd, mx))
    if "children" in t:
        if inline_ctx or ty in INLINE_CONTAINER or ty in BLOCK_INLINE_CHILDREN:
            sub = "inline"
        elif ty in BLOCK_SPECIAL:
            sub = BLOCK_SPECIAL[ty]
        else:
            sub = "block"
        return _seq(t["children"], path, sub, nd, mx)
    return None
