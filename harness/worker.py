"""Guarded conversions in worker processes: CPU-time limit, exception capture with the innermost mistune frame."""
import os, sys, signal, traceback, resource, time
from concurrent.futures import ProcessPoolExecutor
from concurrent.futures.process import BrokenProcessPool

_mds = {}


class Timeout(Exception):
    pass


def _alarm(sig, frm):
    raise Timeout()


def _get(cfg):
    import configs, mistune
    key = repr(sorted(cfg.items(), key=lambda kv: kv[0])) if isinstance(cfg, dict) else cfg
    if key not in _mds:
        if cfg == "mistune.html":
            _mds[key] = mistune.html
        else:
            _mds[key] = configs.make(cfg)
    return _mds[key]


def frame_sig(tb):
    """innermost frame inside mistune: file:function"""
    last = None
    for fs in traceback.extract_tb(tb):
        if "/mistune/" in fs.filename:
            last = "%s:%s" % (os.path.basename(fs.filename), fs.name)
    return last or "?"


def convert(task):
    """task = (cfg, doc, limit_s) -> dict(status=ok|exc|timeout, …)"""
    cfg, doc, limit = task
    sys.path.insert(0, os.environ.get("MISTUNE_SRC", "/repo/src"))
    signal.signal(signal.SIGALRM, _alarm)
    try:
        # a conversion that never stops usually also grows without bound: MemoryError instead of taking the machine down
        soft, hard = resource.getrlimit(resource.RLIMIT_AS)
        lim = 3 << 30
        if soft == resource.RLIM_INFINITY or soft > lim:
            resource.setrlimit(resource.RLIMIT_AS, (lim, hard))
    except Exception:
        pass
    t0 = time.process_time()
    try:
        md = _get(cfg)
    except Exception as e:
        return {"status": "exc", "exc": type(e).__name__, "where": "construct:" + frame_sig(e.__traceback__), "msg": str(e)[:200]}
    signal.setitimer(signal.ITIMER_REAL, limit)
    mem = False
    try:
        r = md(doc)
        signal.setitimer(signal.ITIMER_REAL, 0)
        want = list if (isinstance(cfg, dict) and cfg.get("renderer") in ("ast", None)) else str
        if not isinstance(r, want):
            return {"status": "type", "got": type(r).__name__}
        return {"status": "ok", "cpu": time.process_time() - t0, "len": len(r)}
    except Timeout:
        return {"status": "timeout", "cpu": time.process_time() - t0}
    except MemoryError:
        # (nothing may be allocated here: the traceback still holds the frames with the runaway data)
        mem = True
    except RecursionError as e:
        signal.setitimer(signal.ITIMER_REAL, 0)
        # the cycle of handler names
        names = [fs.name for fs in traceback.extract_tb(e.__traceback__) if "/mistune/" in fs.filename]
        tail = names[-60:]
        cyc = sorted(set(n for n in tail if n.startswith(("parse_", "_parse", "render", "extract", "__parse", "precedence", "parse"))))
        return {"status": "exc", "exc": "RecursionError", "where": "cycle:" + "+".join(cyc)[:160], "msg": ""}
    except Exception as e:
        signal.setitimer(signal.ITIMER_REAL, 0)
        return {"status": "exc", "exc": type(e).__name__, "where": frame_sig(e.__traceback__), "msg": str(e)[:200]}
    finally:
        signal.setitimer(signal.ITIMER_REAL, 0)
    if mem:
        import gc
        gc.collect()
        return {"status": "exc", "exc": "MemoryError", "where": "address-space limit of the guarded worker (3 GB)", "msg": "conversion allocates without bound"}


def count_convert(task):
    """task = (cfg, doc, limit_s) -> dict(status, calls): number of rule-handler invocations (block + inline parse_method
    calls, including those of nested inline parses such as TOC entries) — a deterministic measure of scanning work"""
    cfg, doc, limit = task
    sys.path.insert(0, os.environ.get("MISTUNE_SRC", "/repo/src"))
    signal.signal(signal.SIGALRM, _alarm)
    import configs
    try:
        md = configs.make(cfg)
    except Exception as e:
        return {"status": "exc", "exc": type(e).__name__, "where": "construct", "msg": str(e)[:200]}
    calls = [0]
    for parser in (md.block, md.inline):
        orig = parser.parse_method
        def counting(m, state, orig=orig):
            calls[0] += 1
            return orig(m, state)
        parser.parse_method = counting
    signal.setitimer(signal.ITIMER_REAL, limit)
    t0 = time.process_time()
    try:
        md(doc)
        return {"status": "ok", "calls": calls[0], "cpu": time.process_time() - t0}
    except Timeout:
        return {"status": "timeout", "calls": calls[0], "cpu": time.process_time() - t0}
    except RecursionError:
        return {"status": "exc", "exc": "RecursionError", "where": "", "msg": ""}
    except Exception as e:
        return {"status": "exc", "exc": type(e).__name__, "where": frame_sig(e.__traceback__), "msg": str(e)[:200]}
    finally:
        signal.setitimer(signal.ITIMER_REAL, 0)


def run_all(tasks, workers=14, fn=None):
    """returns list of results aligned with tasks; a task that kills its worker is reported as status=crash"""
    results = [None] * len(tasks)
    pending = list(range(len(tasks)))
    env_src = os.environ.get("MISTUNE_SRC")
    while pending:
        try:
            with ProcessPoolExecutor(max_workers=workers) as ex:
                for i, r in zip(pending, ex.map(fn or convert, [tasks[i] for i in pending], chunksize=8)):
                    results[i] = r
            pending = []
        except Exception:
            # (BrokenProcessPool, or an exception that escaped a worker, e.g. MemoryError while reporting)
            # find the culprit(s) one by one, each in its own single-task pool
            rest = [i for i in pending if results[i] is None]
            for i in rest:
                try:
                    with ProcessPoolExecutor(max_workers=1) as ex:
                        results[i] = list(ex.map(fn or convert, [tasks[i]]))[0]
                except Exception:
                    results[i] = {"status": "crash"}
            pending = []
    return results
