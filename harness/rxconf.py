"""Regex conformance: the Lean engine vs CPython `re` on every pattern mistune uses (static tables, module
constants, run-time constructions, combined scanners), seeded random subjects; compares span and every group."""
import re, sys, types
import common, rxconv, configs
from common import enc

ALPH = list(" \t\n\\*_`[]()<>!#-+=~|:.\"'&;^$1234567890aZbxyhtps/@{}é　 \x0b\x0c\r") + ["  ", "\n\n", "    ", "```", "~~~", "http://", "<!--", "-->", "]]>", "<?", "?>", "a", "ß", "_"]


def collect_patterns(md=None):
    """name -> (pattern string, flags)"""
    import mistune
    # plugin modules are imported lazily by mistune (`import_plugin`): load them all so that their module-level
    # patterns are collected whatever configuration was built before
    import importlib
    for _p in ("abbr", "def_list", "footnotes", "table", "task_lists", "ruby", "spoiler"):
        importlib.import_module("mistune.plugins." + _p)
    # the directive modules as well (`mistune.directives._rst._directive_re`, `._fenced._directive_re`, `._fenced._type_re`, `.image._num_re`)
    importlib.import_module("mistune.directives")
    pats = {}
    for name, mod in sorted(sys.modules.items()):
        if not (name == "mistune" or name.startswith("mistune.")):
            continue
        for k, v in vars(mod).items():
            if isinstance(v, re.Pattern):
                pats["%s.%s" % (name, k)] = (v.pattern, v.flags & ~re.U)
            elif isinstance(v, dict) and v and all(isinstance(x, re.Pattern) for x in v.values()):
                for kk, vv in v.items():
                    pats["%s.%s[%s]" % (name, k, kk)] = (vv.pattern, vv.flags & ~re.U)
            elif isinstance(v, type) and v.__module__ == name:
                for kk, vv in vars(v).items():
                    if isinstance(vv, re.Pattern):
                        pats["%s.%s.%s" % (name, k, kk)] = (vv.pattern, vv.flags & ~re.U)
    if md is None:
        md = configs.make(configs.C("all-fenced", plugins=configs.PLUGINS, directives="fenced"))
        md2 = configs.make(configs.C("all-rst", plugins=configs.PLUGINS, directives="rst"))
    else:
        md2 = None
    for m in (md, md2):
        if m is None:
            continue
        for k, v in m.block.specification.items():
            pats["block:" + k] = (v, re.M)
        for k, v in m.inline.specification.items():
            pats["inline:" + k] = (v, 0)
        pats["scanner:block"] = (m.block.compile_sc().pattern, re.M)
        pats["scanner:inline"] = (m.inline.compile_sc().pattern, 0)
    # run-time constructions (Appendix B of DESIGN.md)
    for c in "`~":
        for n in (3, 5):
            pats["rt:fence_end[%s%d]" % (c, n)] = (r"^ {0,3}" + c + "{" + str(n) + r",}[ \t]*(?:\n|$)", re.M)
    for k in (0, 1, 3):
        pats["rt:trim[%d]" % k] = ("^ {0," + str(k) + "}", re.M)
        pats["rt:fn_indent[%d]" % k] = (r"^ {" + str(k) + r",}", re.M)
    for n in (1, 2, 3):
        pats["rt:codespan_end[%d]" % n] = (r"(.*?[^`])" + "`" * n + r"(?!`)", re.S)
    from mistune.list_parser import _compile_list_item_pattern, _get_list_bullet
    for b in ".)*+-":
        for w in (0, 1, 2, 3):
            # as compiled inside _parse_list_item: (?P<list_item>(?<=\n)PATTERN); leading_width > 3 is capped at 3
            pats["rt:list_item[%s%d]" % (b, w)] = (r"(?<=\n)" + _compile_list_item_pattern(_get_list_bullet(b), w), re.M)
    # the list-item break patterns: specification[name] with its first "3" textually replaced by the leading width (< 3)
    from mistune.block_parser import BlockParser
    for name in ("thematic_break", "fenced_code", "atx_heading", "block_quote", "block_html", "list"):
        spec = BlockParser.SPECIFICATION[name]
        for w in (0, 1, 2, 3):
            pats["rt:listbreak[%s,%d]" % (name, w)] = (r"(?<=\n)" + (spec.replace("3", str(w), 1) if w < 3 else spec), re.M)
    # `_parse_list_item` (list_parser.py): `if 'fenced_directive' in block.specification: list_item_breaks.insert(1, "fenced_directive")`, and the
    # same textual replacement is applied to that pattern (its first "3" is the fence-length quantifier `{3,}`).  The pattern is the one a
    # `FencedDirective` with custom markers registers: taken from the live configuration `all-fenced-colon`.
    md3 = configs.make(configs.C("all-fenced-colon", plugins=configs.PLUGINS, directives="fenced-colon"))
    if "fenced_directive" in md3.block.specification:
        spec = md3.block.specification["fenced_directive"]
        for w in (0, 1, 2, 3):
            pats["rt:listbreak[fenced_directive,%d]" % w] = (r"(?<=\n)" + (spec.replace("3", str(w), 1) if w < 3 else spec), re.M)
    return pats


def rand_subject(rng, maxlen=30):
    return "".join(rng.choice(ALPH) for _ in range(rng.randint(0, maxlen)))


def run(ctx, per_pattern=None, patterns=None):
    """returns (n_checked, broken list, unsupported list)"""
    d = common.Driver()
    pats = patterns or collect_patterns()
    per_pattern = per_pattern or (40 if ctx.quick() else 400)
    reqs, exp, unsupported = [], [], []
    for name, (p, fl) in sorted(pats.items()):
        try:
            tree, ng, gi = rxconv.from_pattern(p, fl)
        except rxconv.Unsupported as e:
            unsupported.append("%s: %s" % (name, e))
            continue
        wire = rxconv.to_wire(tree)
        cre = re.compile(p, fl)
        for _ in range(per_pattern):
            r = ctx.rng.random()
            if r < 0.35:
                s = rand_subject(ctx.rng)
            else:
                # pattern-directed: a string generated from the regex tree, embedded in noise and lightly mutated
                g = rxconv.gen_from_tree(tree, ctx.rng)
                if ctx.rng.random() < 0.3 and g:
                    i = ctx.rng.randrange(len(g))
                    g = g[:i] + ctx.rng.choice(ALPH) + g[i + ctx.rng.randint(0, 1):]
                s = rand_subject(ctx.rng, 6) + ctx.rng.choice(["", "\n", " "]) + g + ctx.rng.choice(["", "\n", " ", "\n\n"]) + rand_subject(ctx.rng, 6)
            pos = ctx.rng.randint(0, len(s)) if ctx.rng.random() < 0.3 else 0
            endpos = ctx.rng.randint(pos, len(s)) if ctx.rng.random() < 0.2 else len(s)
            mode = ctx.rng.choice(["search", "search", "match"])
            m = getattr(cre, mode)(s, pos, endpos)
            if m is None:
                want = "none"
            else:
                want = ";".join(("%d,%d" % m.span(g)) if m.span(g) != (-1, -1) else "-" for g in range(ng + 1))
            reqs.append(("rx_search", mode, wire, enc(s), str(pos), str(endpos), str(ng)))
            exp.append((name, p, s, pos, endpos, mode, want))
    outs = d.batch(reqs)
    broken, nmatch = [], 0
    for (name, p, s, pos, endpos, mode, want), got in zip(exp, outs):
        if want != "none":
            nmatch += 1
        if got != want:
            if len(broken) < 5:
                broken.append("regex-conformance: %s %s(%r, %d, %d): engine %s, re %s" % (name, mode, s, pos, endpos, got, want))
    return len(reqs), nmatch, broken, unsupported


if __name__ == "__main__":
    common.ensure_repo_on_path()
    ctx = common.Ctx("RX", "quick", int(sys.argv[1]) if len(sys.argv) > 1 else 0, "other")
    if len(sys.argv) > 2:
        ctx.tier = "thorough"
    n, nm, broken, uns = run(ctx)
    print("checked", n, "matches", nm, "unsupported", uns)
    for b in broken:
        print(b)
