"""Seeded-change bookkeeping.
  seedtool.py confirm <srcdir> <suffix|''> <seed-id>   confirm a candidate (tests pass, demo fails with / passes without) in a scratch
                                                        worktree and store it under /verif/seeded/<seed-id>/
  seedtool.py eval <seed-id> [--tier quick] [PROP…]    apply to /repo, run the check(s), undo, record the outcome in meta.json
"""
import sys, os, json, subprocess, shutil, time
VERIF = os.path.dirname(os.path.dirname(os.path.abspath(__file__)))
SEEDED = os.path.join(VERIF, "seeded")
REPO = "/repo"


def sh(cmd, cwd=None, env=None, timeout=3600):
    e = dict(os.environ)
    if env:
        e.update(env)
    p = subprocess.run(cmd, shell=True, cwd=cwd, env=e, capture_output=True, text=True, timeout=timeout)
    return p.returncode, p.stdout + p.stderr


def confirm(srcdir, suffix, sid):
    patch = os.path.join(srcdir, "patch%s.diff" % suffix)
    demo = os.path.join(srcdir, "demo%s.py" % suffix)
    meta = os.path.join(srcdir, "meta%s.json" % suffix)
    wt = "/tmp/mut/_verify_%s" % sid
    sh("git -C %s worktree remove --force %s" % (REPO, wt))
    rc, out = sh("git -C %s worktree add --detach %s HEAD -q" % (REPO, wt))
    assert rc == 0, out
    ran = []
    try:
        env = {"PYTHONPATH": wt + "/src", "MISTUNE_VERIF": ""}
        shutil.copy(demo, wt + "/demo_seed.py")
        rc0, o0 = sh("/venv/bin/python demo_seed.py", cwd=wt, env=env, timeout=900)
        ran.append("demo without change: exit %d" % rc0)
        rc, out = sh("git apply %s" % patch, cwd=wt)
        assert rc == 0, "patch does not apply: " + out
        rct, ot = sh("/venv/bin/python -m pytest -q -p no:cacheprovider -x 2>&1 | tail -3", cwd=wt, env=env, timeout=1800)
        ran.append("pytest with change: " + ot.strip().split("\n")[-1])
        rc1, o1 = sh("/venv/bin/python demo_seed.py", cwd=wt, env=env, timeout=900)
        ran.append("demo with change: exit %d: %s" % (rc1, o1.strip()[-300:]))
        ok = rc0 == 0 and rc1 != 0 and " passed" in ot and "failed" not in ot
    finally:
        sh("git -C %s worktree remove --force %s" % (REPO, wt))
    print("\n".join(ran))
    if not ok:
        print("NOT CONFIRMED")
        return 1
    d = os.path.join(SEEDED, sid)
    os.makedirs(d, exist_ok=True)
    shutil.copy(patch, d + "/patch.diff")
    shutil.copy(demo, d + "/demo.py")
    m = {}
    try:
        m = json.load(open(meta))
    except Exception as e:
        m = {"note": "agent meta unreadable: %s" % e}
    m["confirmed"] = ran
    m["seed_id"] = sid
    json.dump(m, open(d + "/meta.json", "w"), indent=1)
    print("CONFIRMED ->", d)
    return 0


def evaluate(sid, props, tier):
    d = os.path.join(SEEDED, sid)
    m = json.load(open(d + "/meta.json"))
    props = props or [m.get("property")]
    rc, out = sh("git -C %s status --porcelain" % REPO)
    assert out.strip() == "", "/repo not clean: " + out
    rc, out = sh("git -C %s apply %s/patch.diff" % (REPO, d))
    assert rc == 0, "patch does not apply to /repo: " + out
    res = {}
    try:
        for p in props:
            t0 = time.time()
            rc, out = sh("./check %s --tier %s" % (p, tier), cwd=VERIF, timeout=7200)
            lines = [l for l in out.split("\n") if l.startswith(("VIOLATION", "KNOWN-FINDING", "INFRA"))]
            res[p] = {"exit": rc, "lines": lines[:6], "wall_s": round(time.time() - t0, 1), "tier": tier}
            print(p, "exit", rc, lines[:3])
    finally:
        sh("git -C %s checkout -- ." % REPO)
    m.setdefault("detection", {}).update(res)
    json.dump(m, open(d + "/meta.json", "w"), indent=1)
    return 0


if __name__ == "__main__":
    if sys.argv[1] == "confirm":
        sys.exit(confirm(sys.argv[2], sys.argv[3], sys.argv[4]))
    elif sys.argv[1] == "eval":
        args = sys.argv[2:]
        tier = "quick"
        if "--tier" in args:
            i = args.index("--tier"); tier = args[i + 1]; del args[i:i + 2]
        sys.exit(evaluate(args[0], args[1:], tier))
