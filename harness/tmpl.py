"""Translator for HTML render methods: symbolic execution of each method's Python AST into a small template
language (string concatenation of literals and escaped arguments under conditions on the arguments).

Template  T    ::= ["seq", E] | ["ite", C, T, T] | ["opaque", reason]
Expr      E    ::= [piece, …]
piece          ::= ["lit", s] | ["arg", name, [op…]] | ["sub", [op…], E] | ["replaceFirst", E, s, E] | ["toc", name]
Cond      C    ::= ["truthy", E] | ["argtruthy", name] | ["notnone", name] | ["flag", "_escape"] | ["isdigit", name]
                 | ["startswith", E, s] | ["not", C]
ops            ::= escape | escapeNoQuote | safeEntity | safeUrl | striptags | str | strip | rstrip | firstWord | dropLast4
`$text` is the first positional argument (token.raw or the rendered children)."""
import ast, inspect, textwrap

EMPTY_TYPES = {"linebreak", "softbreak", "blank_line", "thematic_break", "block_image"}
ESCAPERS = {"escape_text": "escape", "escape": "escape", "safe_entity": "safeEntity", "striptags": "striptags", "str": "str"}


class Unsupported(Exception):
    pass


def render_functions(md):
    """type -> python function (unbound) for the HTML renderer of a converter"""
    import mistune.renderers.html as H
    out = {}
    r = md.renderer
    for n, f in inspect.getmembers(type(r), inspect.isfunction):
        if not n.startswith("_") and n not in ("render_token", "render_tokens", "iter_tokens", "register", "safe_url"):
            out[n] = f
    for n, lam in r._BaseRenderer__methods.items():
        for c in lam.__closure__ or []:
            if inspect.isfunction(c.cell_contents):
                out[n] = c.cell_contents
    return out


class Sym:
    """symbolic value: kind 'str' with pieces, or 'arg' (an untouched parameter, may be None/bool/int/str)"""
    def __init__(self, kind, v):
        self.kind, self.v = kind, v

    def pieces(self):
        if self.kind == "str":
            return list(self.v)
        if self.kind == "arg":
            return [["arg", self.v, []]]
        raise Unsupported("value of kind %s used as string" % self.kind)


def lit(s):
    return Sym("str", [["lit", s]] if s else [])


def apply_op(sym, op):
    ps = sym.pieces()
    if len(ps) == 1 and ps[0][0] == "arg":
        return Sym("str", [["arg", ps[0][1], ps[0][2] + [op]]])
    if all(p[0] == "lit" for p in ps) and op in ("escape",):
        import mistune.util as u
        return lit(u.escape("".join(p[1] for p in ps)))
    return Sym("str", [["sub", [op], ps]])


def merge(ps):
    out = []
    for p in ps:
        if p[0] == "lit" and out and out[-1][0] == "lit":
            out[-1] = ["lit", out[-1][1] + p[1]]
        elif p[0] == "lit" and not p[1]:
            continue
        else:
            out.append(p)
    return out


class Exec:
    def __init__(self, ty, fn):
        self.ty = ty
        src = textwrap.dedent(inspect.getsource(fn))
        self.fdef = ast.parse(src).body[0]
        args = self.fdef.args
        names = [a.arg for a in args.args]
        self.params = names[1:]          # drop self / renderer
        self.kwargs = args.kwarg.arg if args.kwarg else None
        self.env0 = {}
        for i, n in enumerate(self.params):
            if i == 0 and ty not in EMPTY_TYPES:
                self.env0[n] = Sym("arg", "$text")
            else:
                self.env0[n] = Sym("arg", n)

    def run(self):
        return self.block(self.fdef.body, dict(self.env0))

    # ---- statements
    def block(self, stmts, env):
        for i, st in enumerate(stmts):
            if isinstance(st, ast.Expr) and isinstance(st.value, ast.Constant):
                continue        # docstring
            if isinstance(st, ast.Return):
                return ["seq", merge(self.expr(st.value, env).pieces())]
            if isinstance(st, ast.Assign):
                if len(st.targets) != 1 or not isinstance(st.targets[0], ast.Name):
                    raise Unsupported("assignment target")
                env[st.targets[0].id] = self.expr(st.value, env)
                continue
            if isinstance(st, ast.AugAssign):
                if not isinstance(st.op, ast.Add) or not isinstance(st.target, ast.Name):
                    raise Unsupported("augmented assignment")
                cur = env[st.target.id]
                env[st.target.id] = Sym("str", merge(cur.pieces() + self.expr(st.value, env).pieces()))
                continue
            if isinstance(st, ast.If):
                c = self.cond(st.test, env)
                rest = stmts[i + 1:]
                if c is True:
                    return self.block(st.body + rest, env)
                if c is False:
                    return self.block(st.orelse + rest, env)
                return ["ite", c, self.block(st.body + rest, dict(env)), self.block(st.orelse + rest, dict(env))]
            raise Unsupported("statement %s" % type(st).__name__)
        raise Unsupported("no return")

    # ---- conditions
    def cond(self, e, env):
        if isinstance(e, ast.UnaryOp) and isinstance(e.op, ast.Not):
            c = self.cond(e.operand, env)
            return (not c) if isinstance(c, bool) else ["not", c]
        if isinstance(e, ast.Compare) and len(e.ops) == 1 and isinstance(e.ops[0], (ast.IsNot, ast.Is)) and isinstance(e.comparators[0], ast.Constant) and e.comparators[0].value is None:
            v = self.expr(e.left, env)
            if v.kind == "arg":
                c = ["notnone", v.v]
                return c if isinstance(e.ops[0], ast.IsNot) else ["not", c]
            if v.kind == "str":
                return isinstance(e.ops[0], ast.IsNot)
            raise Unsupported("is None on computed value")
        if isinstance(e, ast.Attribute) and isinstance(e.value, ast.Name) and e.value.id == "self" and e.attr == "_escape":
            return ["flag", "_escape"]
        if isinstance(e, ast.Call) and isinstance(e.func, ast.Attribute):
            if e.func.attr == "isdigit":
                v = self.expr(e.func.value, env)
                if v.kind == "arg":
                    return ["isdigit", v.v]
            if e.func.attr == "startswith" and len(e.args) == 1 and isinstance(e.args[0], ast.Constant):
                return ["startswith", merge(self.expr(e.func.value, env).pieces()), e.args[0].value]
        v = self.expr(e, env)
        if v.kind == "arg":
            return ["argtruthy", v.v]
        ps = merge(v.pieces())
        if not ps:
            return False
        if any(p[0] == "lit" and p[1] for p in ps):
            return True
        return ["truthy", ps]

    # ---- expressions
    def expr(self, e, env):
        if isinstance(e, ast.Constant):
            if isinstance(e.value, str):
                return lit(e.value)
            raise Unsupported("constant %r" % (e.value,))
        if isinstance(e, ast.Name):
            if e.id in env:
                return env[e.id]
            raise Unsupported("name %s" % e.id)
        if isinstance(e, ast.BinOp) and isinstance(e.op, ast.Add):
            return Sym("str", merge(self.expr(e.left, env).pieces() + self.expr(e.right, env).pieces()))
        if isinstance(e, ast.Subscript):
            # attrs["toc"]  |  x.split(None, 1)[0]  |  x.rstrip()[:-4]
            if isinstance(e.value, ast.Name) and e.value.id == self.kwargs and isinstance(e.slice, ast.Constant):
                return Sym("arg", e.slice.value)
            if isinstance(e.value, ast.Call) and isinstance(e.value.func, ast.Attribute) and e.value.func.attr == "split" and isinstance(e.slice, ast.Constant) and e.slice.value == 0:
                a = e.value.args
                if len(a) == 2 and isinstance(a[0], ast.Constant) and a[0].value is None:
                    return apply_op(self.expr(e.value.func.value, env), "firstWord")
            if isinstance(e.slice, ast.Slice) and e.slice.lower is None and isinstance(e.slice.upper, ast.UnaryOp) and isinstance(e.slice.upper.operand, ast.Constant) and e.slice.upper.operand.value == 4:
                return apply_op(self.expr(e.value, env), "dropLast4")
            raise Unsupported("subscript")
        if isinstance(e, ast.BoolOp) and isinstance(e.op, ast.Or) and len(e.values) == 2 and isinstance(e.values[1], ast.List) and not e.values[1].elts:
            return self.expr(e.values[0], env)      # `x or []`: the default of an absent list argument
        if isinstance(e, ast.Call):
            f = e.func
            if isinstance(f, ast.Name):
                if f.id in ESCAPERS and len(e.args) == 1:
                    op = ESCAPERS[f.id]
                    for kw in e.keywords:
                        if kw.arg == "quote" and isinstance(kw.value, ast.Constant) and kw.value.value is False:
                            op = "escapeNoQuote"
                    return apply_op(self.expr(e.args[0], env), op)
                if f.id == "render_toc_ul" and len(e.args) == 1:
                    v = self.expr(e.args[0], env)
                    if v.kind == "arg":
                        return Sym("str", [["toc", v.v]])
                raise Unsupported("call %s" % f.id)
            if isinstance(f, ast.Attribute):
                if isinstance(f.value, ast.Name) and f.value.id == "self" and f.attr == "safe_url" and len(e.args) == 1:
                    return apply_op(self.expr(e.args[0], env), "safeUrl")
                if isinstance(f.value, ast.Name) and f.value.id == self.kwargs and f.attr == "get" and len(e.args) == 1 and isinstance(e.args[0], ast.Constant):
                    return Sym("arg", e.args[0].value)
                if f.attr in ("strip", "rstrip") and not e.args:
                    return apply_op(self.expr(f.value, env), f.attr)
                if f.attr == "replace" and len(e.args) == 3 and isinstance(e.args[0], ast.Constant) and isinstance(e.args[2], ast.Constant) and e.args[2].value == 1:
                    return Sym("str", [["replaceFirst", merge(self.expr(f.value, env).pieces()), e.args[0].value, merge(self.expr(e.args[1], env).pieces())]])
                raise Unsupported("method %s" % f.attr)
        raise Unsupported("expression %s" % type(e).__name__)


def extract(md):
    """type -> template"""
    out = {}
    for ty, fn in sorted(render_functions(md).items()):
        try:
            out[ty] = Exec(ty, fn).run()
        except Unsupported as ex:
            out[ty] = ["opaque", str(ex)]
        except Exception as ex:
            out[ty] = ["opaque", "extractor error: %r" % ex]
    return out


# ---------------------------------------------------------------- reference interpreter (Python), for probing the extraction itself
def ev_expr(ps, args, flags, helpers):
    out = []
    for p in ps:
        k = p[0]
        if k == "lit":
            out.append(p[1])
        elif k == "arg":
            v = args.get(p[1])
            out.append(helpers["ops"](v, p[2]))
        elif k == "sub":
            out.append(helpers["ops"](ev_expr(p[2], args, flags, helpers), p[1]))
        elif k == "replaceFirst":
            out.append(ev_expr(p[1], args, flags, helpers).replace(p[2], ev_expr(p[3], args, flags, helpers), 1))
        elif k == "toc":
            out.append(helpers["toc"](args.get(p[1])))
    return "".join(out)


if __name__ == "__main__":
    import sys, json
    sys.path.insert(0, "/repo/src")
    import configs
    md = configs.make(configs.C("x", plugins=configs.PLUGINS, directives="rst"))
    t = extract(md)
    for k, v in t.items():
        print(k, json.dumps(v)[:300])
    print(sum(1 for v in t.values() if v[0] == "opaque"), "opaque of", len(t))
