"""Pristine-process oracle: answers "what does a FRESH interpreter + fresh converter return for this
document?".  The server imports mistune once and never converts anything itself; every request is served
by a fork()ed child, so no state (module globals included) can leak from one request to the next.
Protocol: one JSON object per line on stdin {"kind": <name or cfg dict>, "doc": str|None, "call": "md"|"markdown", "kw": {...}}
-> one JSON line {"ok": result} | {"exc": name}."""
import sys, os, json


def build(kind):
    import mistune, configs
    if isinstance(kind, dict):
        return configs.make(kind)
    if kind == "mistune.html":
        return mistune.html
    if kind == "toc-hook":
        from mistune.toc import add_toc_hook
        md = mistune.create_markdown(plugins=["footnotes", "abbr", "table"])
        add_toc_hook(md)
        return md
    for c in configs.named("thorough"):
        if c["name"] == kind:
            return configs.make(c)
    raise KeyError(kind)


def serve_one(req):
    import mistune
    try:
        if req.get("call") == "markdown":
            kw = dict(req.get("kw") or {})
            if "plugins" in kw and kw["plugins"] is not None:
                kw["plugins"] = tuple(kw["plugins"])
            if "renderer_obj" in kw:
                from mistune.renderers.html import HTMLRenderer
                kw["renderer"] = HTMLRenderer(**kw.pop("renderer_obj"))
            r = mistune.markdown(req["doc"], **kw)
        else:
            r = build(req["kind"])(req["doc"])
        return {"ok": r}
    except RecursionError:
        return {"exc": "RecursionError"}
    except Exception as e:
        return {"exc": type(e).__name__}


def main():
    import mistune, configs  # noqa: imported before forking, never used for a conversion in the parent
    for line in sys.stdin:
        req = json.loads(line)
        r, w = os.pipe()
        pid = os.fork()
        if pid == 0:
            os.close(r)
            try:
                out = json.dumps(serve_one(req), default=str)
            except BaseException as e:
                out = json.dumps({"exc": "child:" + type(e).__name__})
            with os.fdopen(w, "w") as f:
                f.write(out)
            os._exit(0)
        os.close(w)
        with os.fdopen(r) as f:
            data = f.read()
        os.waitpid(pid, 0)
        sys.stdout.write((data or json.dumps({"exc": "child-died"})) + "\n")
        sys.stdout.flush()


if __name__ == "__main__":
    main()
