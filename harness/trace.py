"""Instrumentation of a live Markdown object (no source change): records, per invocation of
BlockParser.parse / InlineParser.parse, the source, the rule list, and for every loop iteration the match
(rule, start, end) and the handler's return value; also handler-contract monitoring."""
import re


class ScProxy:
    """stands in for the compiled scanner returned by compile_sc(); logs loop searches"""

    def __init__(self, real, rec, rules):
        self._real, self._rec, self._rules = real, rec, rules

    def search(self, s, *a):
        m = self._real.search(s, *a)
        if len(a) == 1:          # the loops call search(src, pos); precedence_scan passes (src, pos, endpos)
            self._rec.on_search(self, s, a[0], m)
        return m

    def match(self, s, *a):
        return self._real.match(s, *a)

    def __getattr__(self, k):
        return getattr(self._real, k)


class Recorder:
    def __init__(self, kind, parser, max_frames=4000):
        self.kind, self.parser = kind, parser
        self.stack = []
        self.frames = []
        self.max_frames = max_frames
        self.contract_violations = []
        self.depth_max = 0

    def on_search(self, proxy, s, pos, m):
        if not self.stack:
            return
        fr = self.stack[-1]
        if fr["src"] is not s and fr["src"] != s:
            return
        fr["last"] = m
        fr["last_pos"] = pos
        if fr["rules"] is None:
            fr["rules"] = list(proxy._rules)

    def install(self):
        p, rec = self.parser, self
        orig_parse, orig_csc, orig_pm = p.parse, p.compile_sc, p.parse_method

        def compile_sc(rules=None):
            real = orig_csc(rules)
            return ScProxy(real, rec, list(p.rules if rules is None else rules))

        def parse(state, *a, **kw):
            fr = {"src": state.src, "rules": None, "events": [], "last": None, "start_cursor": getattr(state, "cursor", 0),
                  "depth": len(rec.stack), "explicit_rules": (list(a[0]) if a and a[0] is not None else None)}
            rec.stack.append(fr)
            rec.depth_max = max(rec.depth_max, len(rec.stack))
            try:
                return orig_parse(state, *a, **kw)
            finally:
                rec.stack.pop()
                fr.pop("last", None)
                if fr["rules"] is None:
                    fr["rules"] = fr["explicit_rules"] if fr["explicit_rules"] is not None else list(p.rules)
                if len(rec.frames) < rec.max_frames:
                    rec.frames.append(fr)

        def parse_method(m, state):
            fr = rec.stack[-1] if rec.stack else None
            is_loop = fr is not None and fr.get("last") is m and m is not None
            if is_loop:
                fr["last"] = None
            ret = orig_pm(m, state)
            if is_loop:
                fr["events"].append((m.lastgroup, m.start(), m.end(), ret))
                limit = len(state.src) + (1 if rec.kind == "block" else 0)
                if ret:
                    if not isinstance(ret, int) or not (m.start() < ret <= limit):
                        rec.contract_violations.append((rec.kind, m.lastgroup, state.src, m.start(), m.end(), ret))
            return ret

        p.parse, p.compile_sc, p.parse_method = parse, compile_sc, parse_method
        return self


def instrument(md):
    return Recorder("block", md.block).install(), Recorder("inline", md.inline).install()
