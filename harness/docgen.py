"""Canonical documents (C04 / C13): an inductive Doc tree, a reference printer to unambiguous CommonMark that is
independent of mistune (parameterised by a Layout), and the token tree the property expects back.

Doc (blocks):  ("heading", level, inls) | ("para", inls) | ("fence", info, lines) | ("icode", lines) | ("hr",) |
               ("html", lines) | ("quote", blocks) | ("list", ordered, start, tight, items=[blocks])
Inline:        ("text", words) | ("em", inls) | ("strong", inls) | ("code", s) | ("link", inls, url, title) |
               ("image", alt_words, url, title) | ("auto", url) | ("ihtml", raw) | ("esc", ch) | ("hard",) | ("soft",)
"""
NO_ESC = [False]      # set by callers that need punctuation-free text (C13)
WORDS = ["alpha", "beta", "gamma", "delta", "omega", "foo", "bar", "baz", "one", "two", "red", "blue", "Xy", "Q"]
URLS = ["/u", "/path/to", "http://x.y/z", "#frag", "rel.html", "x(y", "/wiki/page(topic)", "q(", "/a)b"]
ESC = list("*_`[]<>#\\!()")


class Layout:
    def rng_alone(self, i):
        return True

    def __init__(self, rng):
        self.bullet = rng.choice("-*+")
        self.delim = rng.choice(".)")
        self.fence = rng.choice("`~")
        self.fence_len = rng.randint(3, 5)
        self.fence_indent = 0
        self.marker_alone = rng.random() < 0.2
        self.quote_bare_end = rng.random() < 0.2
        self._alone_bits = rng.getrandbits(16)
        self.em = rng.choice("*_")
        self.strong = rng.choice(["**", "__"])
        self.setext = rng.random() < 0.3
        self.hr = rng.choice(["---", "***", "___", "- - -", "*****"])
        self.hard = rng.choice(["  \n", "\\\n", "   \n"])
        self.code_indent = rng.choice(["    ", "\t"])
        self.title_q = rng.choice(['"', "'"])
        self.quote_space = True
        self.atx_close = rng.random() < 0.2


# ---------------------------------------------------------------- generation
def gen_words(rng, lo=1, hi=3):
    return " ".join(rng.choice(WORDS) for _ in range(rng.randint(lo, hi)))


# custom elements whose names begin with the name of a block-level element or of the anchor element, and anchor-like spellings
CUSTOM_TAGS = ["<a-note>", "</a-note>", "<a-icon x=\"1\"/>", "<nav-bar>", "<main-menu>", "</details-menu>", "<li-icon>", "<p-x>", "<h1-x>", "<table-view>", "<div-x y=\"z\">", "<abbr-x>", "<address-card>"]


def gen_inlines(rng, depth=0, in_link=False, in_em=False, in_strong=False, allow_breaks=True, plain=False):
    n = rng.randint(1, 4)
    out = []
    for i in range(n):
        r = rng.random()
        if plain or r < 0.4 or depth >= 2:
            node = ("text", gen_words(rng))
        elif r < 0.5 and not in_em:
            node = ("em", gen_inlines(rng, depth + 1, in_link, True, in_strong, False))
        elif r < 0.6 and not in_strong:
            node = ("strong", gen_inlines(rng, depth + 1, in_link, in_em, True, False))
        elif r < 0.68:
            node = ("code", gen_words(rng, 1, 2))
        elif r < 0.76 and not in_link:
            node = ("link", gen_inlines(rng, depth + 1, True, in_em, in_strong, False), rng.choice(URLS), gen_words(rng, 1, 2) if rng.random() < 0.4 else None)
        elif r < 0.78 and not in_link:
            u = rng.choice(["README", "http://x.y/z", "docs/index"])
            node = ("link", [("text", u)], u, gen_words(rng, 1, 2))
        elif r < 0.82 and not in_link:
            node = ("image", gen_words(rng, 1, 2), rng.choice(URLS), gen_words(rng, 1, 2) if rng.random() < 0.3 else None)
        elif r < 0.87 and not in_link:
            node = ("auto", "http://x.y/" + rng.choice(WORDS))
        elif r < 0.91 and i > 0:
            node = ("ihtml", rng.choice(["<b>", "</b>", "<i class=\"k\">", "<br/>", "<!-- c -->", "<nav-bar>", "</nav-bar>", "<details-menu x=\"1\">", "</summary-card>", "<li-icon/>", "<x-y>"] + CUSTOM_TAGS))
        elif r < 0.93 and i == 0 and n >= 2 and depth == 0:
            # a custom element at the very start of a paragraph line, followed by text on the same line (so it is not an HTML block of its own)
            node = ("ihtml", rng.choice(CUSTOM_TAGS))
            out.append(node)
            out.append(("text", " " + gen_words(rng)))
            continue
        elif r < 0.95 and not NO_ESC[0]:
            # inside emphasis / links an escaped backtick or '<' followed by a later code span / tag trips mistune's
            # precedence scan (known finding, see known_findings.json): not generated there
            allowed = [c for c in ESC if c not in "`<"] if (in_em or in_strong or in_link) else ESC
            node = ("esc", rng.choice(allowed))
            if rng.random() < 0.35:
                # a run of escapes: an escaped backslash directly followed by an escaped delimiter (`\\\*` is a literal backslash and a
                # literal star), also in the middle of emphasis, where the closing-delimiter search must skip it
                out.append(("esc", "\\"))
                out.append(("adj",))
                node = ("esc", rng.choice([c for c in "*_" if c in allowed] + [rng.choice(allowed), "\\"]))
        else:
            node = ("text", gen_words(rng))
        out.append(node)
        if node[0] in ("link", "image") and not in_link and rng.random() < 0.25:
            # another link / code span directly behind it, no blank between
            out.append(("adj",))
            out.append(rng.choice([("link", [("text", gen_words(rng, 1, 2))], rng.choice(URLS), None), ("code", gen_words(rng, 1, 1) + ")")]))
        # (after an escape more often, and then mostly a hard break: an escaped backslash directly in front of the backslash form of a hard
        # break is an odd run of three or more backslashes at the end of a line)
        if allow_breaks and depth == 0 and i < n - 1 and rng.random() < (0.5 if node[0] == "esc" else 0.2):
            out.append(("hard",) if rng.random() < (0.8 if node[0] == "esc" else 0.4) else ("soft",))
    # a break must be followed by plain text (the next line must not look like a block start)
    fixed = []
    for j, node in enumerate(out):
        fixed.append(node)
        if node[0] in ("hard", "soft") and (j + 1 >= len(out) or out[j + 1][0] != "text"):
            if j + 2 < len(out) and out[j + 1][0] == "ihtml" and out[j + 1][1] in CUSTOM_TAGS and out[j + 2][0] == "text":
                continue         # a continuation line may begin with a custom element followed by text (it cannot interrupt the paragraph)
            fixed.append(("text", gen_words(rng)))
    while fixed and fixed[-1][0] in ("hard", "soft"):
        fixed.pop()
    if fixed[0][0] in ("hard", "soft") or (fixed[0][0] == "ihtml" and "-" not in fixed[0][1]):
        # (a custom element such as <nav-bar> may begin a paragraph: it is inline HTML, not the start of an HTML block)
        fixed.insert(0, ("text", gen_words(rng)))
    if fixed[0][0] == "ihtml" and len(fixed) == 1:
        fixed.append(("text", gen_words(rng)))
    if in_em or in_strong:
        # inside emphasis the content starts and ends with a word, so delimiter runs never touch each other
        if fixed[0][0] != "text":
            fixed.insert(0, ("text", gen_words(rng)))
        if fixed[-1][0] != "text":
            # …or with an escaped punctuation character that is not a delimiter (`*Really\\!*`)
            if not NO_ESC[0] and rng.random() < 0.5:
                fixed.append(("esc", rng.choice("!)]#>(")))
            else:
                fixed.append(("text", gen_words(rng)))
        elif not NO_ESC[0] and rng.random() < 0.15:
            fixed.append(("esc", rng.choice("!)]#>(")))
    return fixed


def gen_block(rng, depth, maxdepth, plain=False, first_in_item=False):
    r = rng.random()
    if depth >= maxdepth:
        r = min(r, 0.69)
    if first_in_item:
        return ("para", gen_inlines(rng, plain=plain))
    if r < 0.30:
        return ("para", gen_inlines(rng, plain=plain))
    if r < 0.40:
        return ("heading", rng.randint(1, 6), gen_inlines(rng, allow_breaks=False, plain=plain))
    if r < 0.50:
        lines = []
        for _ in range(rng.randint(0, 4)):
            lines.append(rng.choice(["", gen_words(rng), "  " + gen_words(rng), "# x", "> y", "- z", "*a*", "<t>", "&amp;", "``", "~~", "\\"]))
        if rng.random() < 0.12:
            # lines that are closing fences once the body of an INDENTED fence is de-indented (four blanks + a run)
            lines.append(rng.choice(["    ```", "    ~~~", "     `````", "    ~~~~  "]))
        if lines and rng.random() < 0.25:
            # a run of two or three empty lines inside (or at an end of) the code: code keeps every blank line
            k = rng.randint(0, len(lines))
            lines[k:k] = [""] * rng.randint(2, 3)
        return ("fence", rng.choice(["", "py", "c lang"]), lines)
    if r < 0.57:
        lines = [gen_words(rng)]
        for _ in range(rng.randint(0, 2)):
            lines.append(rng.choice([gen_words(rng), "  " + gen_words(rng), "* x", "<b>", " ```", "  ~~~~", "   ``` x", "```", "~~~ y", " `", "   ````` "]))
        return ("icode", lines)
    if r < 0.63:
        return ("hr",)
    if r < 0.70:
        k = rng.random()
        if k < 0.25:
            return ("html", ["<div>", gen_words(rng), "</div>"])
        if k < 0.35:
            # tag names are case-insensitive
            t = rng.choice(["DIV", "Table", "UL", "Section", "BLOCKQUOTE"])
            return ("html", ["<%s>%s" % (t, gen_words(rng)), gen_words(rng), "</%s>" % t])
        if k < 0.5:
            return ("html", ["<table>", "<tr><td>" + gen_words(rng) + "</td></tr>", "</table>"])
        # the other start conditions of CommonMark HTML blocks end at their own closing marker, not at a blank line;
        # a ">" (or a blank line, at top level) inside them belongs to the block
        gap = [""] if depth == 0 and rng.random() < 0.5 else []
        w1, w2 = gen_words(rng), gen_words(rng)
        kind = rng.choice(["pre", "script", "style", "comment", "pi", "decl", "cdata"])
        if kind in ("pre", "script", "style"):
            return ("html", ["<%s>" % kind, w1 + " > " + w2] + gap + ["*" + w2 + "*", "</%s>" % kind])
        if kind == "comment":
            return ("html", ["<!-- " + w1, w2 + " > x"] + gap + ["- " + w1 + " -->"])
        if kind == "pi":
            return ("html", ["<?php " + w1, "echo '>';"] + gap + [w2 + " ?>"])
        if kind == "decl":
            return ("html", ["<!DOCTYPE " + w1.split(" ")[0] + ">"])
        return ("html", ["<![CDATA[", w1 + " > " + w2] + gap + ["# " + w2, "]]>"])
    if r < 0.84:
        return ("quote", gen_blocks(rng, depth + 1, maxdepth, plain))
    ordered = rng.random() < 0.5
    tight = rng.random() < 0.5
    items = []
    n_items = rng.randint(1, 3)
    for item_i in range(n_items):
        blocks = [gen_block(rng, depth + 1, maxdepth, plain, first_in_item=True)]
        if tight and n_items > 1 and rng.random() < 0.15:
            # an item that is one non-text block: fenced code or a quote (a heading-only or rule-only item runs into mistune
            # deviations recorded in known_findings.json / DESIGN.md §12.5 and is exercised by stored examples only)
            blocks = [("fence", rng.choice(["", "py"]), [gen_words(rng)])] if rng.random() < 0.5 else [("quote", [("para", gen_inlines(rng, plain=plain, allow_breaks=False))])]
            items.append(blocks)
            continue
        if tight:
            if rng.random() < 0.3 and depth + 1 < maxdepth:
                # a nested tight list directly under the paragraph keeps the item tight
                sub = gen_block(rng, depth + 1, maxdepth, plain)
                tries = 0
                # (an ordered list can interrupt the paragraph above it only if it starts at 1)
                while (sub[0] != "list" or not sub[3] or (sub[1] and sub[2] != 1)) and tries < 8:
                    sub = gen_block(rng, depth + 1, maxdepth, plain); tries += 1
                if sub[0] == "list" and sub[3] and not (sub[1] and sub[2] != 1):
                    blocks.append(sub)
            elif rng.random() < 0.25 and depth + 1 < maxdepth:
                # a tight item may also end with a block that can interrupt its paragraph: fenced code or a quote
                if rng.random() < 0.5:
                    blocks.append(("fence", rng.choice(["", "py"]), [gen_words(rng) for _ in range(rng.randint(0, 2))]))
                elif rng.random() < 0.3:
                    # text, a nested tight list, then an HTML block that ends the nested list without a blank line
                    blocks.append(("list", False, None, True, [[("para", gen_inlines(rng, plain=plain, allow_breaks=False))]]))
                    h = rng.choice(["<!-- note -->", "<?php x ?>", "<div class=\"x\">"])
                    # (a comment / processing instruction ends on its own line; only the <div> block may run on to a second line)
                    blocks.append(("html", [h] + ([gen_words(rng)] if h.startswith("<div") and rng.random() < 0.5 else [])))
                elif rng.random() < 0.6:
                    blocks.append(("quote", [("para", gen_inlines(rng, plain=plain, allow_breaks=False))]))
                else:
                    # … a quote that holds a list and then a paragraph (the blank line after the inner list must survive)
                    inner = ("list", False, None, True, [[("para", gen_inlines(rng, plain=plain, allow_breaks=False))] for _ in range(rng.randint(1, 2))])
                    blocks.append(("quote", [inner, ("para", gen_inlines(rng, plain=plain, allow_breaks=False))]))
        elif n_items == 1 and rng.random() < 0.3:
            # a loose list of ONE item whose only blank lines stand directly behind an HTML block that ends at a blank line (start conditions 6 / 7):
            # the blank line must still make the list loose
            t = rng.choice(["div", "table", "section", "p"])
            blocks = [("html", ["<%s>" % t, gen_words(rng), "</%s>" % t])]
            blocks.append(rng.choice([("para", gen_inlines(rng, plain=plain, allow_breaks=False)), ("html", ["<div>", gen_words(rng), "</div>"]),
                                      ("list", False, None, True, [[("para", gen_inlines(rng, plain=plain, allow_breaks=False))]])]))
        else:
            for _ in range(rng.randint(0, 2)):
                push_block(rng, blocks, gen_block(rng, depth + 1, maxdepth, plain), plain)
        items.append(blocks)
    if not tight and len(items) == 1 and len(items[0]) == 1:
        # looseness is observable only with two items or a second block in an item
        items.append([gen_block(rng, depth + 1, maxdepth, plain, first_in_item=True)])
    return ("list", ordered, rng.choice([1, 1, 2, 7, 10, 99, 0, 0, 123456789]) if ordered else None, tight, items)


def push_block(rng, out, b, plain=False):
    """append `b`, keeping the sequence unambiguous: two lists in a row would merge or change tightness; an indented
    code block directly after a list would continue its last item, and two indented chunks are one code block"""
    if out and b[0] == "list" and out[-1][0] == "list":
        out.append(("para", gen_inlines(rng, plain=plain)))
    if out and b[0] == "icode" and out[-1][0] in ("list", "icode"):
        out.append(("hr",))
    out.append(b)


def gen_blocks(rng, depth=0, maxdepth=3, plain=False):
    out = []
    for _ in range(rng.randint(1, 4)):
        push_block(rng, out, gen_block(rng, depth, maxdepth, plain), plain)
    return out


# ---------------------------------------------------------------- printing
def p_dest(url, lay):
    """a destination with parentheses is written in angle brackets or with every parenthesis escaped"""
    if "(" in url or ")" in url:
        return "<" + url + ">" if lay.em == "*" else url.replace("(", "\\(").replace(")", "\\)")
    return url


def p_inlines(inls, lay):
    out = []
    prev_break = True
    for node in inls:
        k = node[0]
        if k in ("hard", "soft"):
            out.append(lay.hard if k == "hard" else "\n")
            prev_break = True
            continue
        if k == "adj":
            prev_break = True          # the next node follows without a blank
            continue
        if not prev_break:
            out.append(" ")
        prev_break = False
        if k == "text":
            out.append(node[1])
        elif k == "em":
            out.append(lay.em + p_inlines(node[1], lay) + lay.em)
        elif k == "strong":
            out.append(lay.strong + p_inlines(node[1], lay) + lay.strong)
        elif k == "code":
            out.append("`" + node[1] + "`")
        elif k == "link":
            t = (" " + lay.title_q + node[3] + lay.title_q) if node[3] else ""
            out.append("[" + p_inlines(node[1], lay) + "](" + p_dest(node[2], lay) + t + ")")
        elif k == "image":
            t = (" " + lay.title_q + node[3] + lay.title_q) if node[3] else ""
            out.append("![" + node[1] + "](" + p_dest(node[2], lay) + t + ")")

        elif k == "auto":
            out.append("<" + node[1] + ">")
        elif k == "ihtml":
            out.append(node[1])
        elif k == "esc":
            out.append("\\" + node[1])
        elif k == "reflink":
            out.append("[" + node[1] + "]")
    return "".join(out)


def p_block(b, lay, top=False):
    """-> list of lines"""
    k = b[0]
    if k == "para":
        return p_inlines(b[1], lay).split("\n")
    if k == "heading":
        txt = p_inlines(b[2], lay)
        if lay.setext and b[1] <= 2:
            return [txt, "===" if b[1] == 1 else "---"]
        return ["#" * b[1] + " " + txt + (" " + "#" * b[1] if lay.atx_close else "")]
    if k == "fence":
        f = lay.fence * lay.fence_len
        ind = " " * getattr(lay, "fence_indent", 0) if top else ""       # (top level only: inside containers extra indentation changes which item a block belongs to)
        return [ind + f + b[1]] + [(ind + l) if l else "" for l in b[2]] + [ind + f]
    if k == "icode":
        # a tab as code indentation is used at top level only: inside containers mistune expands tabs against the
        # container prefix differently from CommonMark (known finding shared with C11)
        ind = lay.code_indent if top else "    "
        return [ind + l for l in b[1]]
    if k == "hr":
        return [lay.hr if lay.hr[0] != lay.bullet else "___"]
    if k == "html":
        return list(b[1])
    if k == "quote":
        inner = p_blocks(b[1], lay)
        return [("> " + l) if l else ">" for l in inner]
    if k == "list":
        _, ordered, start, tight, items = b
        lines = []
        for i, blocks in enumerate(items):
            marker = ("%d%s" % (start + i, lay.delim)) if ordered else lay.bullet
            pad = " " * (len(marker) + 1)
            inner = []
            for j, blk in enumerate(blocks):
                if j > 0 and not tight:
                    inner.append("")
                inner += p_block(blk, lay)
            alone = getattr(lay, "marker_alone", False) and blocks and blocks[0][0] == "para" and inner and inner[0] and not inner[0].startswith(" ")
            if alone and top and i == 0 and lay.rng_alone(i):
                # the marker alone on its line, the item's content starting on the next line (CommonMark: an item may begin with at most one blank line)
                lines.append(marker)
                for l in inner:
                    lines.append((pad + l) if l else "")
                if not tight and i < len(items) - 1:
                    lines.append("")
                continue
            for j, l in enumerate(inner):
                lines.append((marker + " " + l) if j == 0 else ((pad + l) if l else ""))
            if not tight and i < len(items) - 1:
                lines.append("")
        return lines
    raise ValueError(k)


def p_blocks(blocks, lay, top=False):
    out = []
    for i, b in enumerate(blocks):
        if i > 0:
            prev = blocks[i - 1]
            if getattr(lay, "quote_bare_end", False) and prev[0] == "quote" and b[0] == "para" and prev[1] and prev[1][-1][0] == "para":
                # a quote closed by a bare ">" line, the next paragraph following directly (the way to end a quote without a blank line)
                out.append(">")
            else:
                out.append("")
        out += p_block(b, lay, top)
    return out


def print_doc(blocks, lay):
    return "\n".join(p_blocks(blocks, lay, top=True)) + "\n"


# ---------------------------------------------------------------- expected tokens
def e_inlines(inls):
    out = []
    prev_break = True
    for node in inls:
        k = node[0]
        if k in ("hard", "soft"):
            out.append({"type": "linebreak" if k == "hard" else "softbreak"})
            prev_break = True
            continue
        if k == "adj":
            prev_break = True          # the next node follows without a blank
            continue
        if not prev_break:
            out.append({"type": "text", "raw": " "})
        prev_break = False
        if k == "text":
            out.append({"type": "text", "raw": node[1]})
        elif k == "em":
            out.append({"type": "emphasis", "children": e_inlines(node[1])})
        elif k == "strong":
            out.append({"type": "strong", "children": e_inlines(node[1])})
        elif k == "code":
            out.append({"type": "codespan", "raw": node[1]})
        elif k == "link":
            attrs = {"url": node[2]}
            if node[3]:
                attrs["title"] = node[3]
            out.append({"type": "link", "children": e_inlines(node[1]), "attrs": attrs})
        elif k == "image":
            attrs = {"url": node[2]}
            if node[3]:
                attrs["title"] = node[3]
            out.append({"type": "image", "children": [{"type": "text", "raw": node[1]}], "attrs": attrs})
        elif k == "auto":
            out.append({"type": "link", "children": [{"type": "text", "raw": node[1]}], "attrs": {"url": node[1]}})
        elif k == "ihtml":
            out.append({"type": "inline_html", "raw": node[1]})
        elif k == "esc":
            out.append({"type": "text", "raw": node[1]})
        elif k == "reflink":
            out.append({"type": "link", "children": [{"type": "text", "raw": node[1]}], "attrs": {"url": "/ref-url", "title": "Ref Title"}})
    return merge_text(out)


def merge_text(toks):
    out = []
    for t in toks:
        if t["type"] == "text" and out and out[-1]["type"] == "text":
            out[-1] = {"type": "text", "raw": out[-1]["raw"] + t["raw"]}
        else:
            out.append(t)
    return out


def e_block(b, depth, tight_parent=False):
    k = b[0]
    if k == "para":
        return {"type": "block_text" if tight_parent else "paragraph", "children": e_inlines(b[1])}
    if k == "heading":
        return {"type": "heading", "children": e_inlines(b[2]), "attrs": {"level": b[1]}}
    if k == "fence":
        t = {"type": "block_code", "raw": "".join(l + "\n" for l in b[2])}
        if b[1]:
            t["attrs"] = {"info": b[1]}
        return t
    if k == "icode":
        return {"type": "block_code", "raw": "".join(l + "\n" for l in b[1])}
    if k == "hr":
        return {"type": "thematic_break"}
    if k == "html":
        return {"type": "block_html", "raw": "".join(l + "\n" for l in b[1])}
    if k == "quote":
        return {"type": "block_quote", "children": [e_block(x, depth + 1) for x in b[1]]}
    if k == "list":
        _, ordered, start, tight, items = b
        attrs = {"depth": depth, "ordered": ordered}
        if ordered and start != 1:
            attrs["start"] = start
        return {"type": "list", "tight": tight, "attrs": attrs,
                "children": [{"type": "list_item", "children": [e_block(x, depth + 1, tight_parent=tight) for x in blocks]} for blocks in items]}
    raise ValueError(k)


def expected(blocks):
    return [e_block(b, 0) for b in blocks]


# ---------------------------------------------------------------- normalisation of real token trees (the relation ≈)
DROP_KEYS = ("style", "marker", "bullet", "prev", "parent")


def normalise(tokens):
    out = []
    for t in tokens:
        if t["type"] == "blank_line":
            continue
        n = {k: v for k, v in t.items() if k not in DROP_KEYS and k != "children"}
        if t.get("type") == "block_code" and t.get("style") == "indent" and n.get("raw") and not n["raw"].endswith("\n"):
            # the parser keeps an indented code block without its final line end and a fenced one with it (one block
            # re-styled by the Markdown renderer): canonical form = every line terminated.  Nothing else is trimmed.
            n["raw"] += "\n"
        if n.get("type") == "block_html" and "raw" in n:
            n["raw"] = n["raw"].rstrip("\n")
        if "children" in t:
            n["children"] = normalise(t["children"])
        out.append(n)
    return merge_text(out)
