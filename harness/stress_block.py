"""Extra block-level stress inputs for corr_model (block kind): dense container / tab / ref-link / html fragments."""
import sys, os, random
HERE = os.path.dirname(os.path.abspath(__file__))
sys.path.insert(0, HERE)
import corr_model as cm, common, gen

FRAG = ["> ", ">", ">\t", " > ", "   > ", "    > ", "- ", "-", "* ", "+ ", "1. ", "1) ", "2. ", "0. ", "10) ", "123456789. ", "1234567890. ",
        "-\t", "1.\t", "  ", "   ", "    ", "     ", "\t", " \t", "  \t", "\t\t", "\n", "\n", "\n", "\n\n", " \n", "\t\n", "\x0b\n", "\x0c\n",
        "a", "b", "foo", "bar", "# ", "## h ##", "#", "####### ", "#\t", "===", "---", "--", "=", "- - -", "***", "___", "_ _ _", "* * *",
        "```", "````", "~~~", "```py", "``` a`b", "~~~ a`b", "``` \\&amp;", "```&#32;", " ```", "  ```", "   ```", "    ```",
        "[foo]: ", "[foo]:", "[Foo]: /u", "[a b]:\n/u", "[x]: <u v>", "[x]: <u", "[x]: /u 't'", "[x]: /u \"t\"", "[x]: /u\n't'", "[x]: /u 't' x", "[x]: /u\n't' x",
        "[x]: /u&amp;&#35;&#x41;&copy;&notit;&bogus;&#0;&#xD800;&#1114112;&#128;&#1;é", "[\\]]: /u", "[]: /u", "[ ]: /u", "[x]: /u '\\'\\a'", "[ẞ]: /ß",
        "<div>", "</div>", "<div", "<DIV>", "<pre>", "</pre>", "<script>", "</script>", "<style", "<textarea>", "<!--", "-->", "<?", "?>", "<!A", "<![CDATA[", "]]>",
        "<a>", "</a>", "<a href='x'>", "<a b=c>", "<a b>", "<a b=>", "</a >", "<a/>", "<span> x", "<x-y>", "<p>", "<hr", "<h1>", "</ul>", ">",
        "١. ", "٢) ", " ", " ", "　", "\x1c", "\\", "`", "&", ";", ":", "'", "\"", "(", ")", "<", "]"]

NEST = ["> ", ">", "- ", "* ", "1. ", "1) ", "+ ", "   ", "  ", "\t", ">\t", "-\t"]


def doc(rng):
    r = rng.random()
    if r < 0.5:
        return "".join(rng.choice(FRAG) for _ in range(rng.randint(1, 30)))
    if r < 0.8:
        lines = []
        for _ in range(rng.randint(1, 8)):
            pre = "".join(rng.choice(NEST) for _ in range(rng.randint(0, 9)))
            lines.append(pre + "".join(rng.choice(FRAG) for _ in range(rng.randint(0, 4))))
        return "\n".join(lines) + rng.choice(["", "\n"])
    return gen.md_any(rng, 7) + "".join(rng.choice(FRAG) for _ in range(rng.randint(0, 10)))


def main():
    seed = int(sys.argv[1]) if len(sys.argv) > 1 else 0
    n = int(sys.argv[2]) if len(sys.argv) > 2 else 3000
    rng = random.Random(seed)
    side = cm.Side("core")
    docs = []
    while len(docs) < n:
        s = doc(rng)
        if len(s) <= 300 and not common.has_surrogate(s):
            docs.append(s)
    bad = cm.compare(side, "block", docs)
    nerr = sum(1 for s in docs if side.real("block", s).startswith("error"))
    print("stress seed %d: %d inputs, %d disagreements, %d implementation errors" % (seed, len(docs), len(bad), nerr))
    for s, want, got in bad[:5]:
        m = cm.minimise(side, "block", s)
        w, g = side.real("block", m), cm.compare(side, "block", [m])
        print("--- input (minimised): %r" % m)
        print("    implementation: %s" % cm.decode_canon(w))
        print("    model         : %s" % cm.decode_canon(g[0][2] if g else "(agrees after minimisation?)"))


if __name__ == "__main__":
    main()
