"""Correspondence of the concrete Lean parser model with the implementation.

  corr_model.py block  [--cfg core] [--n 2000] [--seed 0] [--maxlen 200] [--show 5]
  corr_model.py inline [...]
  corr_model.py doc    [...]

block : BlockParser.parse on a normalised source (tokens BEFORE the inline pass + env['ref_links'])
inline: InlineParser.__call__(text, env) with a small reference table
doc   : md(s) with renderer=None
Prints the number of disagreements and the first few with both sides, minimised by line/char deletion."""
import sys, os, argparse, random, json
HERE = os.path.dirname(os.path.abspath(__file__))
sys.path.insert(0, HERE)
import common, gen, configs
from common import enc


def canon(v):
    if v is None:
        return "n"
    if v is True:
        return "T"
    if v is False:
        return "F"
    if isinstance(v, int):
        return "i%d" % v
    if isinstance(v, str):
        return "s" + ",".join(str(ord(c)) for c in v)
    if isinstance(v, (list, tuple)):
        return "[" + ";".join(canon(x) for x in v) + "]"
    if isinstance(v, dict):
        items = sorted((str(k), canon(x)) for k, x in v.items() if k not in ("prev", "parent"))
        return "{" + ";".join("%s=%s" % kv for kv in items) + "}"
    raise TypeError(type(v))


def norm(s):
    s = s.replace("\r\n", "\n").replace("\r", "\n")
    if not s.endswith("\n"):
        s += "\n"
    return s


REFS = {"FOO": {"url": "/url", "label": "foo", "title": "T"}, "BAR": {"url": "/bar%20x", "label": "Bar"}, "A B": {"url": "u", "label": "a  b"}}


def enc_refs(refs):
    return ";".join("%s|%s|%s|%s" % (enc(k), enc(v["url"]), enc(v["title"]) if "title" in v else "-", enc(v["label"])) for k, v in refs.items())


class Side:
    def __init__(self, cfgname):
        common.ensure_repo_on_path()
        self.cfgname = cfgname
        cfg = next(c for c in configs.named("thorough") if c["name"] == cfgname)
        cfg = dict(cfg); cfg["renderer"] = "ast"
        self.md = configs.make(cfg)
        self.plugins = list(cfg.get("plugins") or [])
        self.directives = cfg.get("directives")

    def real(self, kind, s):
        try:
            if kind == "block":
                st = self.md.block.state_cls()
                st.process(norm(s))
                self.md.block.parse(st)
                # the whole env (plugins keep their definitions there: `ref_footnotes`, `ref_abbrs`) except instrumentation keys
                return "ok " + canon(st.tokens) + " " + canon({k: v for k, v in st.env.items() if not k.startswith("__")})
            if kind == "inline":
                toks = self.md.inline(s, {"ref_links": json.loads(json.dumps(REFS))})
                return "ok " + canon(toks)
            return "ok " + canon(self.md(s))
        except RecursionError:
            return "error RecursionError"
        except Exception as e:
            return "error " + type(e).__name__

    def req(self, kind, s):
        if kind == "block":
            return ("m_block", self.cfgname, enc(norm(s)))
        if kind == "inline":
            return ("m_inline", self.cfgname, enc_refs(REFS), enc(s))
        return ("m_doc", self.cfgname, enc(s))


def inline_text(rng, toks=None):
    n = rng.randint(0, 10)
    parts = []
    toks = toks or gen.INLINE_TOKS
    for _ in range(n):
        r = rng.random()
        if r < 0.4:
            parts.append(rng.choice(gen.WORDS) + rng.choice([" ", " ", ""]))
        elif r < 0.9:
            parts.append(rng.choice(toks))
        else:
            parts.append(rng.choice(["\n", "  \n", "\\\n", " \n "]))
    return "".join(parts)


BLOCK_PLUGINS = ("table", "footnotes", "task_lists", "def_list", "abbr")


INLINE_PLUGINS = ("strikethrough", "mark", "insert", "superscript", "subscript", "url", "math", "ruby", "spoiler", "speedup")


def inputs(kind, rng, n, maxlen, plugins=(), directives=None):
    """`plugins`: plugins of the configuration.  With block plugins half of the block / doc inputs come from gen.md_plugins;
    with plugins of INLINE_PLUGINS (inline rules, block math, spoiler quotes, speedup) half of the inline inputs use gen.PLUGIN_TOKS
    and a share of the block / doc inputs comes from gen.md_inline_plugins.  Without plugins the stream is the stock one."""
    out = []
    inl = [p for p in plugins if p in INLINE_PLUGINS]
    plugins = [p for p in plugins if p in BLOCK_PLUGINS]
    both = gen.INLINE_TOKS + gen.PLUGIN_TOKS
    while len(out) < n:
        if kind == "inline":
            if inl and rng.random() < 0.5:
                s = inline_text(rng, both if rng.random() < 0.5 else gen.PLUGIN_TOKS)
            else:
                s = inline_text(rng)
        elif directives and rng.random() < 0.5:
            # configurations with a directive syntax: half of the block / doc inputs are directives (gen.md_directives)
            s = gen.md_directives(rng, directives)
        elif inl and rng.random() < (0.5 if not plugins else 0.3):
            s = gen.md_inline_plugins(rng)
        elif plugins and rng.random() < 0.5:
            s = gen.md_plugins(rng, plugins)
        else:
            s = gen.md_any(rng, 7)
        if len(s) <= maxlen and not common.has_surrogate(s):
            out.append(s)
    return out


def compare(side, kind, docs):
    d = common.Driver()
    outs = d.batch([side.req(kind, s) for s in docs])
    bad = []
    for s, got in zip(docs, outs):
        want = side.real(kind, s)
        if want.startswith("error") and got.startswith("error"):
            continue
        if want != got:
            bad.append((s, want, got))
    return bad


def minimise(side, kind, s):
    """greedy deletion of lines then characters while the disagreement persists"""
    def differs(t):
        return bool(compare(side, kind, [t]))
    lines = s.split("\n")
    i = 0
    while i < len(lines) and len(lines) > 1:
        t = "\n".join(lines[:i] + lines[i + 1:])
        if differs(t):
            lines = lines[:i] + lines[i + 1:]
        else:
            i += 1
    s = "\n".join(lines)
    i = 0
    while i < len(s) and len(s) > 1:
        t = s[:i] + s[i + 1:]
        if differs(t):
            s = t
        else:
            i += 1
    return s


def firing_stats(side, kind, docs):
    """how often the plugin handlers and hooks fired on these inputs (implementation side): for every registered (non-core) block / inline rule
    the number of handler calls and of calls that returned a position (falsy return = the rule declined); the plugin token types in the results
    (hooks have no handler to wrap: `task_list_item` / `footnotes` tokens count the firings of task_lists_hook / md_footnotes_hook)"""
    import collections
    from mistune.block_parser import BlockParser
    from mistune.inline_parser import InlineParser
    md = side.md
    cnt = collections.Counter()
    saved = []
    for parser, core in ((md.block, BlockParser.SPECIFICATION), (md.inline, InlineParser.SPECIFICATION)):
        for name, fn in list(parser._methods.items()):
            if name in core and not (name == "block_quote" and "spoiler" in side.plugins) \
                    and not (name == "fenced_code" and side.directives == "fenced"):      # spoiler rebinds `block_quote`, FencedDirective `fenced_code`
                continue
            def wrap(m, state, _fn=fn, _name=name):
                cnt[_name + ":called"] += 1
                r = _fn(m, state)
                if r:
                    cnt[_name + ":accepted"] += 1
                return r
            saved.append((parser, name, fn))
            parser._methods[name] = wrap
    types = ("table", "table_row", "footnote_ref", "footnotes", "footnote_item", "task_list_item", "def_list", "def_list_head", "def_list_item", "abbr",
             "strikethrough", "mark", "insert", "superscript", "subscript", "inline_math", "block_math", "ruby", "inline_spoiler", "block_spoiler",
             "admonition", "admonition_title", "admonition_content", "block_image", "figure", "figcaption", "legend", "block_error", "toc", "include")
    def walk(toks):
        for t in toks:
            if t.get("type") in types:
                cnt["tok:" + t["type"]] += 1
                if t["type"] == "table_row" and any(c.get("attrs", {}).get("align") for c in t.get("children", [])):
                    cnt["tok:table_row(aligned)"] += 1
            if "children" in t:
                walk(t["children"])
    try:
        for s in docs:
            try:
                if kind == "block":
                    st = md.block.state_cls(); st.process(norm(s)); md.block.parse(st)
                    toks = st.tokens
                    for k in ("ref_footnotes", "ref_abbrs"):
                        if st.env.get(k):
                            cnt["docs with env[%s]" % k] += 1
                else:
                    toks = md(s)
                before = sum(cnt[k] for k in cnt if k.startswith("tok:"))
                walk(toks)
                if sum(cnt[k] for k in cnt if k.startswith("tok:")) > before:
                    cnt["docs with a plugin token"] += 1
            except Exception:
                cnt["exceptions"] += 1
    finally:
        for parser, name, fn in saved:
            parser._methods[name] = fn
    return dict(sorted(cnt.items()))


def decode_canon(c):
    """human-readable rendering of a canonical string (for debugging)"""
    import re
    def rep(m):
        body = m.group(1)
        return repr("".join(chr(int(x)) for x in body.split(","))) if body else "''"
    return re.sub(r"s((?:\d+(?:,\d+)*)?)(?=[;\]}= ]|$)", rep, c)


def main():
    ap = argparse.ArgumentParser()
    ap.add_argument("kind", choices=["block", "inline", "doc"])
    ap.add_argument("--cfg", default="core")
    ap.add_argument("--n", type=int, default=2000)
    ap.add_argument("--seed", type=int, default=0)
    ap.add_argument("--maxlen", type=int, default=200)
    ap.add_argument("--show", type=int, default=5)
    ap.add_argument("--gen", choices=["auto", "stock"], default="auto", help="auto: mix in gen.md_plugins for the block plugins of the configuration; stock: gen.md_any only")
    ap.add_argument("--stats", action="store_true", help="print how often each plugin handler / hook fired on the implementation side")
    ap.add_argument("--input", help="check one literal input (Python string literal, e.g. \"'> a\\n'\")")
    a = ap.parse_args()
    side = Side(a.cfg)
    rng = random.Random(a.seed)
    docs = [eval(a.input)] if a.input else inputs(a.kind, rng, a.n, a.maxlen, () if a.gen == "stock" else side.plugins, None if a.gen == "stock" else side.directives)
    if a.stats:
        print("firing counts (%s/%s, %d inputs): %s" % (a.kind, a.cfg, len(docs), firing_stats(side, a.kind, docs)))
    bad = compare(side, a.kind, docs)
    print("%s/%s: %d inputs, %d disagreements" % (a.kind, a.cfg, len(docs), len(bad)))
    for s, want, got in bad[: a.show]:
        m = minimise(side, a.kind, s) if not a.input else s
        w, g = side.real(a.kind, m), compare(side, a.kind, [m])
        print("--- input (minimised): %r" % m)
        print("    implementation: %s" % decode_canon(w))
        print("    model         : %s" % decode_canon(g[0][2] if g else "(agrees after minimisation?)"))
    return 1 if bad else 0


if __name__ == "__main__":
    sys.exit(main())
