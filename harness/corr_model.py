"""Correspondence of the concrete Lean parser model with the implementation.

  corr_model.py block  [--cfg core] [--n 2000] [--seed 0] [--maxlen 200] [--show 5]
  corr_model.py inline [...]
  corr_model.py doc    [...]

block : BlockParser.parse on a normalised source (tokens BEFORE the inline pass + env['ref_links'])
inline: InlineParser.__call__(text, env) with a small reference table
doc   : md(s) with renderer=None
Prints the number of disagreements and the first few with both sides, minimised by line/char deletion."""
import sys, os, argparse, random, json
HERE = os.path.dirname(os.path.abspath(__file__))
sys.path.insert(0, HERE)
import common, gen, configs
from common import enc


def canon(v):
    if v is None:
        return "n"
    if v is True:
        return "T"
    if v is False:
        return "F"
    if isinstance(v, int):
        return "i%d" % v
    if isinstance(v, str):
        return "s" + ",".join(str(ord(c)) for c in v)
    if isinstance(v, (list, tuple)):
        return "[" + ";".join(canon(x) for x in v) + "]"
    if isinstance(v, dict):
        items = sorted((str(k), canon(x)) for k, x in v.items() if k not in ("prev", "parent"))
        return "{" + ";".join("%s=%s" % kv for kv in items) + "}"
    raise TypeError(type(v))


def norm(s):
    s = s.replace("\r\n", "\n").replace("\r", "\n")
    if not s.endswith("\n"):
        s += "\n"
    return s


REFS = {"FOO": {"url": "/url", "label": "foo", "title": "T"}, "BAR": {"url": "/bar%20x", "label": "Bar"}, "A B": {"url": "u", "label": "a  b"}}


def enc_refs(refs):
    return ";".join("%s|%s|%s|%s" % (enc(k), enc(v["url"]), enc(v["title"]) if "title" in v else "-", enc(v["label"])) for k, v in refs.items())


class Side:
    def __init__(self, cfgname):
        common.ensure_repo_on_path()
        self.cfgname = cfgname
        cfg = next(c for c in configs.named("thorough") if c["name"] == cfgname)
        cfg = dict(cfg); cfg["renderer"] = "ast"
        self.md = configs.make(cfg)

    def real(self, kind, s):
        try:
            if kind == "block":
                st = self.md.block.state_cls()
                st.process(norm(s))
                self.md.block.parse(st)
                return "ok " + canon(st.tokens) + " " + canon({"ref_links": st.env["ref_links"]})
            if kind == "inline":
                toks = self.md.inline(s, {"ref_links": json.loads(json.dumps(REFS))})
                return "ok " + canon(toks)
            return "ok " + canon(self.md(s))
        except RecursionError:
            return "error RecursionError"
        except Exception as e:
            return "error " + type(e).__name__

    def req(self, kind, s):
        if kind == "block":
            return ("m_block", self.cfgname, enc(norm(s)))
        if kind == "inline":
            return ("m_inline", self.cfgname, enc_refs(REFS), enc(s))
        return ("m_doc", self.cfgname, enc(s))


def inline_text(rng):
    n = rng.randint(0, 10)
    parts = []
    for _ in range(n):
        r = rng.random()
        if r < 0.4:
            parts.append(rng.choice(gen.WORDS) + rng.choice([" ", " ", ""]))
        elif r < 0.9:
            parts.append(rng.choice(gen.INLINE_TOKS))
        else:
            parts.append(rng.choice(["\n", "  \n", "\\\n", " \n "]))
    return "".join(parts)


def inputs(kind, rng, n, maxlen):
    out = []
    while len(out) < n:
        s = inline_text(rng) if kind == "inline" else gen.md_any(rng, 7)
        if len(s) <= maxlen and not common.has_surrogate(s):
            out.append(s)
    return out


def compare(side, kind, docs):
    d = common.Driver()
    outs = d.batch([side.req(kind, s) for s in docs])
    bad = []
    for s, got in zip(docs, outs):
        want = side.real(kind, s)
        if want.startswith("error") and got.startswith("error"):
            continue
        if want != got:
            bad.append((s, want, got))
    return bad


def minimise(side, kind, s):
    """greedy deletion of lines then characters while the disagreement persists"""
    def differs(t):
        return bool(compare(side, kind, [t]))
    lines = s.split("\n")
    i = 0
    while i < len(lines) and len(lines) > 1:
        t = "\n".join(lines[:i] + lines[i + 1:])
        if differs(t):
            lines = lines[:i] + lines[i + 1:]
        else:
            i += 1
    s = "\n".join(lines)
    i = 0
    while i < len(s) and len(s) > 1:
        t = s[:i] + s[i + 1:]
        if differs(t):
            s = t
        else:
            i += 1
    return s


def decode_canon(c):
    """human-readable rendering of a canonical string (for debugging)"""
    import re
    def rep(m):
        body = m.group(1)
        return repr("".join(chr(int(x)) for x in body.split(","))) if body else "''"
    return re.sub(r"s((?:\d+(?:,\d+)*)?)(?=[;\]}= ]|$)", rep, c)


def main():
    ap = argparse.ArgumentParser()
    ap.add_argument("kind", choices=["block", "inline", "doc"])
    ap.add_argument("--cfg", default="core")
    ap.add_argument("--n", type=int, default=2000)
    ap.add_argument("--seed", type=int, default=0)
    ap.add_argument("--maxlen", type=int, default=200)
    ap.add_argument("--show", type=int, default=5)
    ap.add_argument("--input", help="check one literal input (Python string literal, e.g. \"'> a\\n'\")")
    a = ap.parse_args()
    side = Side(a.cfg)
    rng = random.Random(a.seed)
    docs = [eval(a.input)] if a.input else inputs(a.kind, rng, a.n, a.maxlen)
    bad = compare(side, a.kind, docs)
    print("%s/%s: %d inputs, %d disagreements" % (a.kind, a.cfg, len(docs), len(bad)))
    for s, want, got in bad[: a.show]:
        m = minimise(side, a.kind, s) if not a.input else s
        w, g = side.real(a.kind, m), compare(side, a.kind, [m])
        print("--- input (minimised): %r" % m)
        print("    implementation: %s" % decode_canon(w))
        print("    model         : %s" % decode_canon(g[0][2] if g else "(agrees after minimisation?)"))
    return 1 if bad else 0


if __name__ == "__main__":
    sys.exit(main())
