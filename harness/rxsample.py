"""Random strings from a regular expression (CPython `re` syntax, parsed with the standard library's own parser).
Lookarounds and anchors are ignored while generating; the caller keeps a sample only if the pattern really matches it."""
import re
try:
    import re._parser as sre_parse
    import re._constants as sre_c
except ImportError:            # Python < 3.11
    import sre_parse
    import sre_constants as sre_c

POOL = "ab Z09.-_/:*[]()<>!~^=$|{}'\"\\\n\té日｜《》"


def _cat(cat, rng):
    name = str(cat)
    if "NOT_DIGIT" in name: return rng.choice("ax -")
    if "DIGIT" in name: return rng.choice("0179")
    if "NOT_SPACE" in name: return rng.choice("ax1-.")
    if "SPACE" in name: return rng.choice(" \t")
    if "NOT_WORD" in name: return rng.choice(" -.!")
    if "WORD" in name: return rng.choice("abz09_")
    return "a"


def _in(items, rng):
    neg = False
    opts = []
    for op, av in items:
        if op is sre_c.NEGATE:
            neg = True
        elif op is sre_c.LITERAL:
            opts.append(chr(av))
        elif op is sre_c.RANGE:
            lo, hi = av
            opts += [chr(lo), chr(hi), chr((lo + hi) // 2)]
        elif op is sre_c.CATEGORY:
            opts.append(_cat(av, rng))
    if not neg:
        return rng.choice(opts) if opts else "a"
    pat = []
    for op, av in items:
        if op is sre_c.LITERAL: pat.append(("c", chr(av)))
        elif op is sre_c.RANGE: pat.append(("r", av))
        elif op is sre_c.CATEGORY: pat.append(("k", str(av)))
    def bad(ch):
        for k, v in pat:
            if k == "c" and ch == v: return True
            if k == "r" and v[0] <= ord(ch) <= v[1]: return True
            if k == "k":
                if "NOT_SPACE" in v and not ch.isspace(): return True
                if "SPACE" in v and "NOT" not in v and ch.isspace(): return True
                if "NOT_DIGIT" in v and not ch.isdigit(): return True
                if "DIGIT" in v and "NOT" not in v and ch.isdigit(): return True
                if "NOT_WORD" in v and not (ch.isalnum() or ch == "_"): return True
                if "WORD" in v and "NOT" not in v and (ch.isalnum() or ch == "_"): return True
        return False
    cand = [ch for ch in POOL if not bad(ch)]
    return rng.choice(cand) if cand else "a"


def _gen(seq, rng, groups, depth=0):
    out = []
    for op, av in seq:
        if op is sre_c.LITERAL:
            out.append(chr(av))
        elif op is sre_c.NOT_LITERAL:
            out.append(rng.choice([c for c in POOL if c != chr(av)]))
        elif op is sre_c.ANY:
            out.append(rng.choice([c for c in POOL if c != "\n"]))
        elif op is sre_c.IN:
            out.append(_in(av, rng))
        elif op is sre_c.BRANCH:
            out.append(_gen(rng.choice(av[1]), rng, groups, depth + 1))
        elif op is sre_c.SUBPATTERN:
            s = _gen(av[3], rng, groups, depth + 1)
            if av[0]:
                groups[av[0]] = s
            out.append(s)
        elif op in (sre_c.MAX_REPEAT, sre_c.MIN_REPEAT) or str(op) == "POSSESSIVE_REPEAT":
            lo, hi, sub = av
            hi = min(hi, lo + 3) if hi != sre_c.MAXREPEAT else lo + 3
            k = rng.randint(lo, max(lo, hi)) if depth < 6 else lo
            out.append("".join(_gen(sub, rng, groups, depth + 1) for _ in range(k)))
        elif op is sre_c.GROUPREF:
            out.append(groups.get(av, ""))
        elif op is sre_c.CATEGORY:
            out.append(_cat(av, rng))
        elif str(op) == "ATOMIC_GROUP":
            out.append(_gen(av, rng, groups, depth + 1))
        # AT, ASSERT, ASSERT_NOT, GROUPREF_EXISTS: nothing
    return "".join(out)


def sample(pattern, rng, flags=0):
    try:
        p = sre_parse.parse(pattern, flags)
    except Exception:
        return None
    return _gen(p, rng, {})


def samples(pattern, rng, n=20, flags=0):
    out = []
    try:
        rx = re.compile(pattern, flags)
    except Exception:
        return out
    for _ in range(n * 4):
        s = sample(pattern, rng, flags)
        if s and rx.search(s):
            out.append(s)
            if len(out) >= n:
                break
    return out
