#!/bin/bash
# evaluate every stored seeded change against the check of its property (sequential: each one patches /repo and undoes it)
cd /verif
for d in seeded/*/; do
  s=$(basename $d)
  if grep -q '"status": "obsolete' $d/meta.json; then echo "$s obsolete"; continue; fi
  if git -C /repo apply --check /verif/$d/patch.diff 2>/dev/null; then
    echo "$s $(python3 harness/seedtool.py eval $s ${s:0:3} 2>&1 | tail -1 | cut -c1-160)"
  else
    echo "$s PATCH DOES NOT APPLY"
  fi
done
git -C /repo status --short | head -3
