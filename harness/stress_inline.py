"""Extra differential stress for the inline model: richer generator than corr_model.inline_text
(long inputs, link destinations / titles, character references, escapes, nested emphasis, raw HTML).

  stress_inline.py [--cfg core] [--n 3000] [--seed 1] [--parts 30] [--show 5]"""
import sys, os, argparse, random
HERE = os.path.dirname(os.path.abspath(__file__))
sys.path.insert(0, HERE)
import common, gen
import corr_model as cm

ENT = ["&amp;", "&lt;", "&gt;", "&quot;", "&#35;", "&#0;", "&#13;", "&#128;", "&#x80;", "&#x9f;", "&#xD800;", "&#x110000;",
       "&#1114111;", "&#9999999;", "&#xfdd0;", "&#11;", "&#x1F600;", "&#X41;", "&#x;", "&#;", "&notit;", "&notin;", "&ampx;",
       "&ltfoo;", "&xyz;", "&AMP;", "&nbsp;", "&NotEqualTilde;", "&acE;", "&a;", "&am;", "&gtdot;", "&copy", "&copyq;",
       "&ThickSpace;", "&fjlig;", "&#12345678;", "&#1234567;", "&#x0000000041;", "&", ";", "&&amp;", "&#x1f;", "&#127;",
       "&#xFFFE;", "&#x1FFFF;", "&#65;", "&eacute;", "&Eacute", "&notinva;", "&centerdot;", "&cent;", "&centfoo;"]
DEST = ["u", "/url", "<u v>", "<>", "<a\\>b>", "<a\nb>", "a b", "a\\)b", "a\\\\)", "(x)", "x(y)z", "\\(x", "http://é.ß/ü?q=%20&x=1",
        "a%zz", "'q'", '"q"', "#frag", "?", "", " u ", "\nu", "\n\nu", "u\n", "<u", "u>", "\x00", "\tu", "javascript:alert(1)",
        "%E2%82%AC", "a[b]c", "a`b`", "a*b*", "<a>", "a&b", "😀"]
TITLE = ['"t"', "'t'", '""', "''", '"a\\"b"', "'a\\'b'", '"a\nb"', "'a'b'", '"a"b"', "(t)", '"t', "t\"", '"&amp;"', '"\\&"', '"\\\\"',
         "'\\q'", '"é"', '"a\x00b"']
SEP = [" ", "", "  ", "\n", " \n ", "\t", "\n\n", "\x0b", "\xa0", " "]
LABEL = ["foo", "FOO", "Foo", "bar", "a b", "a  b", " a\tb ", "A\nB", "ſoo", "ﬀ", "", " ", "\\]", "a\\]b", "a[b", "a]b", "x" * 501, "x" * 499,
         "baz", "*foo*", "`foo`", "fo\\o", "ẞ", "bar\\", "İ"]
TEXT = ["x", "a b", "*e*", "**s**", "`c`", "[i]", "[i](j)", "![i](j)", "![i][foo]", "<b>", "<a>", "</a>", "<http://q.r>", "a\\]b", "a\\\\]b",
        "a]b", "[", "]", "[[", "]]", "\\[", "\\\\[", "", " ", "\n", "&amp;", "a`b", "`a]`", "<a href=']'>", "<x@y.z>", "***q***", "_u_", "__v__"]
MISC = ["*", "**", "***", "****", "_", "__", "___", "`", "``", "```", "` `", "`` ` ``", "` a `", "`  `", "`\n`", "\\", "\\\\", "\\*", "\\_", "\\`",
        "\\[", "\\]", "\\<", "\\&", "\\\n", "  \n", " \n", "\n", "\n ", "   \n  ", "\t\n", "<", ">", "<a>", "</a>", "<A HREF='x'>", "</A >", "<a\n>",
        "<a", "<abbr>", "<b c=d e='f' g=\"h\">", "<b/>", "</b>", "<!-- c -->", "<!--->", "<!---->", "<!-- a -- b -->", "<?p?>", "<!D x>", "<![CDATA[x]]>",
        "<http://a.b/c?d=e&amp;f>", "<mailto:x@y>", "<a+b:c>", "<x@y.z>", "<x@y>", "<x.y@z-z.w>", "<a:b c>", "<ab:<>", "w_x_y", "_x_", "a_", "_a", "a*b*c",
        "* a*", "*a *", "é*ü*", "*　a*", "**a*", "*a**", "***a**", "**a***", "*a_b_*", "_a*b*_", "!", "![", "[", "]", "(", ")", "[]", "()", "[]()",
        "[][]", "![]()", "[foo]", "[foo][]", "[x][foo]", "[foo][x]", "[foo](u)", "[x] [foo]", "[x]\n[foo]", "[foo]:", "[a  B]", "[ſoo]"]


def link(rng):
    txt = "".join(rng.choice(TEXT) for _ in range(rng.randint(0, 3)))
    bang = rng.choice(["", "", "!"])
    r = rng.random()
    if r < 0.6:
        d = rng.choice(DEST)
        if rng.random() < 0.3:
            d += rng.choice(ENT)
        t = rng.choice(SEP) + rng.choice(TITLE) if rng.random() < 0.5 else ""
        return "%s[%s](%s%s%s%s" % (bang, txt, rng.choice(SEP), d, t, rng.choice(SEP)) + rng.choice([")", ")", ")", "", " )", "\n)"])
    if r < 0.85:
        return "%s[%s][%s]" % (bang, txt, rng.choice(LABEL))
    return "%s[%s]" % (bang, rng.choice(LABEL))


def text(rng, parts):
    out = []
    for _ in range(rng.randint(0, parts)):
        r = rng.random()
        if r < 0.25:
            out.append(rng.choice(gen.WORDS) + rng.choice([" ", " ", ""]))
        elif r < 0.55:
            out.append(rng.choice(MISC))
        elif r < 0.7:
            out.append(rng.choice(gen.INLINE_TOKS))
        elif r < 0.9:
            out.append(link(rng))
        elif r < 0.95:
            out.append(rng.choice(ENT))
        else:
            out.append("<%s:%s%s>" % (rng.choice(["http", "x-y", "a"]), rng.choice(DEST), rng.choice(ENT)))
    return "".join(out)


def main():
    ap = argparse.ArgumentParser()
    ap.add_argument("--cfg", default="core")
    ap.add_argument("--n", type=int, default=3000)
    ap.add_argument("--seed", type=int, default=1)
    ap.add_argument("--parts", type=int, default=30)
    ap.add_argument("--show", type=int, default=5)
    a = ap.parse_args()
    side = cm.Side(a.cfg)
    rng = random.Random(a.seed)
    docs = []
    while len(docs) < a.n:
        s = text(rng, a.parts)
        if not common.has_surrogate(s):
            docs.append(s)
    bad = cm.compare(side, "inline", docs)
    both_err = sum(1 for s in docs if side.real("inline", s).startswith("error"))
    print("stress inline/%s: %d inputs (mean len %d), %d disagreements, %d implementation errors" %
          (a.cfg, len(docs), sum(map(len, docs)) // max(1, len(docs)), len(bad), both_err))
    for s, want, got in bad[: a.show]:
        m = cm.minimise(side, "inline", s)
        w, g = side.real("inline", m), cm.compare(side, "inline", [m])
        print("--- input (minimised): %r" % m)
        print("    implementation: %s" % cm.decode_canon(w))
        print("    model         : %s" % cm.decode_canon(g[0][2] if g else "(agrees after minimisation?)"))
    return 1 if bad else 0


if __name__ == "__main__":
    sys.exit(main())
