"""Named configurations of the converter (the documented configuration space) and a builder."""
import itertools

PLUGINS = ["strikethrough", "mark", "insert", "superscript", "subscript", "footnotes", "table", "url", "abbr",
           "def_list", "math", "ruby", "task_lists", "spoiler", "speedup"]
PRESET = ["strikethrough", "footnotes", "table", "speedup"]


def directive_plugin(kind):
    from mistune.directives import (FencedDirective, RSTDirective, Admonition, TableOfContents, Include, Image, Figure)
    plugs = [Admonition(), TableOfContents(), Include(), Image(), Figure()]
    if kind == "fenced-colon":
        return FencedDirective(plugs, ":")          # custom fence markers (":::{note}")
    if kind == "fenced-pct":
        return FencedDirective(plugs, "%")
    return FencedDirective(plugs) if kind == "fenced" else RSTDirective(plugs)


def make(cfg):
    """cfg: dict(renderer=html|ast|markdown|rst, escape, hard_wrap, plugins=[names], directives=None|fenced|rst)"""
    import mistune
    r = cfg.get("renderer", "html")
    if r == "markdown":
        from mistune.renderers.markdown import MarkdownRenderer
        renderer = MarkdownRenderer()
    elif r == "rst":
        from mistune.renderers.rst import RSTRenderer
        renderer = RSTRenderer()
    else:
        renderer = r
    if r == "html" and cfg.get("allow_harmful") is not None:
        from mistune.renderers.html import HTMLRenderer
        renderer = HTMLRenderer(escape=cfg.get("escape", True), allow_harmful_protocols=cfg["allow_harmful"])
    plugins = list(cfg.get("plugins") or [])
    if cfg.get("directives"):
        plugins.append(directive_plugin(cfg["directives"]))
    if cfg.get("max_nested") and cfg.get("max_nested_how") == "ctor":
        # the nesting limit given to the BlockParser constructor (no plugins on this path)
        from mistune.block_parser import BlockParser
        from mistune.inline_parser import InlineParser
        from mistune.renderers.html import HTMLRenderer
        rr = HTMLRenderer(escape=cfg.get("escape", True)) if renderer == "html" else (None if renderer in ("ast", None) else renderer)
        return mistune.Markdown(renderer=rr, block=BlockParser(max_nested_level=cfg["max_nested"]), inline=InlineParser(hard_wrap=cfg.get("hard_wrap", False)))
    md = mistune.create_markdown(escape=cfg.get("escape", True), hard_wrap=cfg.get("hard_wrap", False),
                                 renderer=renderer, plugins=plugins or None)
    if cfg.get("max_nested"):
        md.block.max_nested_level = cfg["max_nested"]      # the documented attribute, set on the converter's parser
    if cfg.get("toc_hook"):
        from mistune.toc import add_toc_hook
        add_toc_hook(md)
    return md


def C(name, **kw):
    d = {"name": name, "renderer": "html", "escape": True, "hard_wrap": False, "plugins": [], "directives": None}
    d.update(kw)
    return d


def named(which="quick"):
    out = [C("core"), C("core-noescape", escape=False), C("core-hardwrap", hard_wrap=True),
           C("preset", escape=False, plugins=PRESET),
           C("all", plugins=[p for p in PLUGINS if p != "speedup"]),
           C("all-speedup", plugins=PLUGINS),
           C("all-fenced", plugins=PLUGINS, directives="fenced"),
           C("all-rst", plugins=PLUGINS, directives="rst"),
           C("all-tochook", plugins=PLUGINS, toc_hook=True),
           C("all-fenced-colon", plugins=PLUGINS, directives="fenced-colon"),
           C("ast-core", renderer="ast"), C("ast-all", renderer="ast", plugins=PLUGINS),
           C("markdown-core", renderer="markdown"), C("rst-core", renderer="rst")]
    if which != "quick":
        for p in PLUGINS:
            out.append(C("only-" + p, plugins=[p]))
        out.append(C("all-noescape-hardwrap", escape=False, hard_wrap=True, plugins=PLUGINS))
    return out


def random_cfg(rng, html_only=True, directives=True):
    k = rng.randint(0, len(PLUGINS))
    pl = rng.sample(PLUGINS, k)
    c = C("rand", escape=rng.random() < 0.6, hard_wrap=rng.random() < 0.3, plugins=pl,
          directives=(rng.choice([None, None, "fenced", "rst"]) if directives else None),
          renderer="html" if html_only else rng.choice(["html", "html", "ast"]))
    if c["renderer"] == "html" and rng.random() < 0.2:
        c["toc_hook"] = True        # the TOC hook renders heading text with the converter's renderer: it needs one
    return c
