"""Prints the Markdown table of seeded changes and their detection (from seeded/*/meta.json) for DESIGN.md §12.7."""
import json, os, glob
rows = []
for d in sorted(glob.glob(os.path.join(os.path.dirname(os.path.dirname(os.path.abspath(__file__))), "seeded", "*"))):
    sid = os.path.basename(d)
    m = json.load(open(os.path.join(d, "meta.json")))
    summ = (m.get("summary") or m.get("change") or "").replace("\n", " ").replace("|", "/")[:150]
    needs = (m.get("needs") or "").replace("\n", " ").replace("|", "/")[:120]
    det = m.get("detection") or {}
    cells = []
    for p, r in sorted(det.items()):
        lines = r.get("lines") or []
        v = [l for l in lines if l.startswith("VIOLATION")]
        if r.get("exit") == 1 and v:
            cells.append("%s: %s" % (p, "no-failing-input-found" if all("no-failing-input-found" in l for l in v) else "VIOLATION with input"))
        elif r.get("exit") == 1:
            cells.append("%s: exit 1" % p)
        else:
            cells.append("%s: missed" % p)
    note = []
    if m.get("ported"):
        note.append("ported")
    if m.get("status"):
        note.append(m["status"][:60])
    rows.append("| %s | %s | %s | %s | %s |" % (sid, summ, needs, "; ".join(cells) or "-", "; ".join(note)))
print("| seed | change | needs | result of `./check` (quick tier) | note |\n|---|---|---|---|---|")
print("\n".join(rows))
