"""Entry point: ./check <ID> [--tier quick|thorough] [--replay FILE]  |  ./check --setup"""
import sys, os, argparse, importlib, traceback, time
import common


def main():
    ap = argparse.ArgumentParser()
    ap.add_argument("id", nargs="?")
    ap.add_argument("--tier", default=os.environ.get("VERIF_TIER") or "quick")
    ap.add_argument("--replay")
    ap.add_argument("--setup", action="store_true")
    a = ap.parse_args()
    if a.tier not in ("quick", "thorough"):
        a.tier = "quick"
    try:
        seed = int(os.environ.get("VERIF_SEED", "0") or 0)
    except ValueError:
        seed = 0
    if a.setup:
        common.ensure_repo_on_path()
        ok, log, info = common.lean_build()
        print(log[-3000:])
        print("setup:", "ok" if ok else "FAILED", info["failed_modules"])
        return 0 if ok else 2
    pid = a.id.upper()
    try:
        common.ensure_repo_on_path()
        mod = importlib.import_module("props." + pid.lower())
        ctx = common.Ctx(pid, a.tier, seed, mod.LEVEL)
        if a.replay:
            return mod.replay(ctx, a.replay)
        mod.run(ctx)
        return common.finish(ctx)
    except common.Infra as e:
        print("INFRA-ERROR: %s" % e)
        return 2
    except Exception:
        traceback.print_exc()
        print("INFRA-ERROR: unexpected exception in the check itself")
        return 2


if __name__ == "__main__":
    sys.exit(main())
