"""Parallel seed evaluation without touching /repo: every seed gets its own scratch worktree of /repo (patch applied there)
and its own scratch copy of /verif (Lean build included), and the property's check runs with MISTUNE_REPO pointing at the
worktree.  Outcomes are recorded in /verif/seeded/<id>/meta.json exactly as `seedtool.py eval` does.

  pareval.py [-j N] [--tier quick] <seed-id>[:PROP] …
"""
import json, os, shutil, subprocess, sys, time
from concurrent.futures import ThreadPoolExecutor

VERIF = os.path.dirname(os.path.dirname(os.path.abspath(__file__)))
SEEDED = os.path.join(VERIF, "seeded")
BASE = "/tmp/pareval"


def sh(cmd, cwd=None, timeout=None, env=None):
    try:
        p = subprocess.run(cmd, shell=True, cwd=cwd, stdout=subprocess.PIPE, stderr=subprocess.STDOUT, timeout=timeout, env=env)
        return p.returncode, p.stdout.decode("utf-8", "replace")
    except subprocess.TimeoutExpired as e:
        return 124, (e.stdout or b"").decode("utf-8", "replace")


def one(spec, tier):
    sid, _, prop = spec.partition(":")
    d = os.path.join(SEEDED, sid)
    m = json.load(open(d + "/meta.json"))
    prop = prop or m.get("property")
    wt = "%s/repo_%s" % (BASE, sid)
    vc = "%s/verif_%s" % (BASE, sid)
    sh("git -C /repo worktree remove --force %s" % wt)
    shutil.rmtree(vc, ignore_errors=True)
    res = None
    try:
        rc, out = sh("git -C /repo worktree add --detach %s HEAD" % wt)
        assert rc == 0, out
        rc, out = sh("git -C %s apply %s/patch.diff" % (wt, d))
        if rc != 0:
            print(sid, "PATCH DOES NOT APPLY", out[:200]); return sid, None
        sh("rsync -a --exclude .git --exclude seeded --exclude replay %s/ %s/" % (VERIF, vc))
        os.makedirs(vc + "/replay", exist_ok=True)
        env = dict(os.environ, MISTUNE_REPO=wt)
        t0 = time.time()
        rc, out = sh("./check %s --tier %s" % (prop, tier), cwd=vc, timeout=7200, env=env)
        lines = [l for l in out.split("\n") if l.startswith(("VIOLATION", "KNOWN-FINDING", "INFRA"))]
        res = {"exit": rc, "lines": lines[:6], "wall_s": round(time.time() - t0, 1), "tier": tier}
        print(sid, prop, "exit", rc, [l for l in lines if l.startswith("VIOLATION")][:2], flush=True)
        # keep the replay of a violation next to the seed (small), for the record
        for l in lines:
            if l.startswith("VIOLATION"):
                rp = l.split("replay=")[1].split()[0]
                src = os.path.join(vc, rp)
                if os.path.exists(src) and os.path.getsize(src) < 200000:
                    shutil.copy(src, os.path.join(d, "detected_replay.json"))
                break
    finally:
        sh("git -C /repo worktree remove --force %s" % wt)
        shutil.rmtree(vc, ignore_errors=True)
    if res is not None:
        m = json.load(open(d + "/meta.json"))
        m.setdefault("detection", {})[prop] = res
        json.dump(m, open(d + "/meta.json", "w"), indent=1)
    return sid, res


if __name__ == "__main__":
    args = sys.argv[1:]
    j, tier = 3, "quick"
    if "-j" in args:
        i = args.index("-j"); j = int(args[i + 1]); del args[i:i + 2]
    if "--tier" in args:
        i = args.index("--tier"); tier = args[i + 1]; del args[i:i + 2]
    os.makedirs(BASE, exist_ok=True)
    with ThreadPoolExecutor(max_workers=j) as ex:
        out = list(ex.map(lambda s: one(s, tier), args))
    missed = [s for s, r in out if r is None or r["exit"] != 1]
    print("MISSED:", " ".join(missed))
