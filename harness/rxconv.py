"""CPython regex -> Rx tree (via CPython's own parser `re._parser`), and printers to Lean source / wire format."""
import re
import re._parser as sp
import re._constants as sc

MAXREPEAT = sc.MAXREPEAT


class Unsupported(Exception):
    pass


def conv_in(items):
    neg = False
    out = []
    for op, av in items:
        if op is sc.NEGATE:
            neg = True
        elif op is sc.LITERAL:
            out.append(("chr", av))
        elif op is sc.RANGE:
            out.append(("range", av[0], av[1]))
        elif op is sc.CATEGORY:
            m = {sc.CATEGORY_DIGIT: (False, "digit"), sc.CATEGORY_NOT_DIGIT: (True, "digit"),
                 sc.CATEGORY_SPACE: (False, "space"), sc.CATEGORY_NOT_SPACE: (True, "space"),
                 sc.CATEGORY_WORD: (False, "word"), sc.CATEGORY_NOT_WORD: (True, "word")}
            if av not in m:
                raise Unsupported("category %s" % av)
            out.append(("cat",) + m[av])
        else:
            raise Unsupported("IN item %s" % op)
    return ("cls", neg, out)


def seq_of(xs):
    if not xs:
        return ("eps",)
    r = xs[-1]
    for x in reversed(xs[:-1]):
        r = ("seq", x, r)
    return r


def conv(p, flags):
    """p: SubPattern (list of (op, av))"""
    return seq_of([conv1(op, av, flags) for op, av in p])


def conv1(op, av, flags):
    M = bool(flags & re.M)
    S = bool(flags & re.S)
    if flags & (re.I | re.X | re.A | re.L):
        raise Unsupported("flag")
    if op is sc.LITERAL:
        return ("cls", False, [("chr", av)])
    if op is sc.NOT_LITERAL:
        return ("cls", True, [("chr", av)])
    if op is sc.ANY:
        return ("any", S)
    if op is sc.IN:
        return conv_in(av)
    if op is sc.BRANCH:
        alts = [conv(a, flags) for a in av[1]]
        r = alts[-1]
        for a in reversed(alts[:-1]):
            r = ("alt", a, r)
        return r
    if op in (sc.MAX_REPEAT, sc.MIN_REPEAT):
        lo, hi, sub = av
        return ("rep", conv(sub, flags), lo, None if hi == MAXREPEAT else hi, op is sc.MAX_REPEAT)
    if op is sc.SUBPATTERN:
        group, add, dele, sub = av
        if add or dele:
            raise Unsupported("inline flags")
        body = conv(sub, flags)
        return body if group is None else ("grp", group, body)
    if op is sc.GROUPREF:
        return ("backref", av)
    if op in (sc.ASSERT, sc.ASSERT_NOT):
        d, sub = av
        w = 0
        if d < 0:
            lo, hi = sub.getwidth()
            if lo != hi:
                raise Unsupported("variable-width look-behind")
            w = lo
        return ("look", d > 0, op is sc.ASSERT_NOT, w, conv(sub, flags))
    if op is sc.AT:
        if av is sc.AT_BEGINNING:
            return ("bol",) if M else ("bos",)
        if av is sc.AT_BEGINNING_STRING:
            return ("bos",)
        if av is sc.AT_END:
            return ("eol",) if M else ("eos",)
        if av is sc.AT_END_STRING:
            return ("eosStrict",)
        if av is sc.AT_BOUNDARY:
            return ("wordb",)
        if av is sc.AT_NON_BOUNDARY:
            return ("nwordb",)
        raise Unsupported("AT %s" % av)
    raise Unsupported("op %s" % op)


def from_pattern(pattern, flags=0):
    """returns (tree, ngroups, groupindex)"""
    if isinstance(pattern, re.Pattern):
        flags = pattern.flags & ~re.U
        pattern = pattern.pattern
    flags = flags & ~re.U
    parsed = sp.parse(pattern, flags)
    eff = parsed.state.flags & ~re.U
    tree = conv(parsed, eff)
    return tree, parsed.state.groups - 1, dict(parsed.state.groupdict)


# ---------------------------------------------------------------- printers

def to_lean(t):
    k = t[0]
    if k in ("eps", "fail", "bos", "bol", "eos", "eol", "eosStrict", "wordb", "nwordb"):
        return "." + k
    if k == "cls":
        items = []
        for it in t[2]:
            if it[0] == "chr":
                items.append(".chr %d" % it[1])
            elif it[0] == "range":
                items.append(".range %d %d" % (it[1], it[2]))
            else:
                items.append(".cat %s .%s" % ("true" if it[1] else "false", it[2]))
        return "(.cls %s [%s])" % ("true" if t[1] else "false", ", ".join(items))
    if k == "any":
        return "(.any %s)" % ("true" if t[1] else "false")
    if k in ("seq", "alt"):
        return "(.%s %s %s)" % (k, to_lean(t[1]), to_lean(t[2]))
    if k == "rep":
        return "(.rep %s %d %s %s)" % (to_lean(t[1]), t[2], "none" if t[3] is None else "(some %d)" % t[3], "true" if t[4] else "false")
    if k == "grp":
        return "(.grp %d %s)" % (t[1], to_lean(t[2]))
    if k == "backref":
        return "(.backref %d)" % t[1]
    if k == "look":
        return "(.look %s %s %d %s)" % ("true" if t[1] else "false", "true" if t[2] else "false", t[3], to_lean(t[4]))
    raise ValueError(k)


def to_wire(t):
    """prefix token list, space separated"""
    out = []

    def go(t):
        k = t[0]
        if k in ("eps", "fail", "bos", "bol", "eos", "eol", "eosStrict", "wordb", "nwordb"):
            out.append(k)
        elif k == "cls":
            out.append("cls"); out.append("1" if t[1] else "0"); out.append(str(len(t[2])))
            for it in t[2]:
                if it[0] == "chr":
                    out.append("c%d" % it[1])
                elif it[0] == "range":
                    out.append("r%d-%d" % (it[1], it[2]))
                else:
                    out.append("k%s%s" % ("1" if it[1] else "0", it[2][0]))
        elif k == "any":
            out.append("any"); out.append("1" if t[1] else "0")
        elif k in ("seq", "alt"):
            out.append(k); go(t[1]); go(t[2])
        elif k == "rep":
            out.extend(["rep", str(t[2]), "-" if t[3] is None else str(t[3]), "1" if t[4] else "0"]); go(t[1])
        elif k == "grp":
            out.extend(["grp", str(t[1])]); go(t[2])
        elif k == "backref":
            out.extend(["backref", str(t[1])])
        elif k == "look":
            out.extend(["look", "1" if t[1] else "0", "1" if t[2] else "0", str(t[3])]); go(t[4])
        else:
            raise ValueError(k)
    go(t)
    return " ".join(out)


def size(t):
    return 1 + sum(size(x) for x in t[1:] if isinstance(x, tuple))


def gen_from_tree(t, rng, groups=None, out=None):
    """A string that is likely (not certain) to match `t`: random walk of the tree."""
    top = out is None
    if top:
        out, groups = [], {}
    k = t[0]
    if k == "cls":
        neg, items = t[1], t[2]
        cands = []
        for it in items:
            if it[0] == "chr":
                cands.append(chr(it[1]))
            elif it[0] == "range":
                cands.append(chr(rng.randint(it[1], min(it[2], it[1] + 60))))
            else:
                base = {"digit": "0759", "space": " \t\n ", "word": "aZ_9é"}[it[2]]
                cands.append(rng.choice("x <*&" if it[1] else base))
        if neg:
            pool = [c for c in "ab x*_<>[]()`\\\n!&;:/1" if c not in cands]
            out.append(rng.choice(pool or ["q"]))
        else:
            out.append(rng.choice(cands or ["q"]))
    elif k == "any":
        out.append(rng.choice("ab *_`<[x]\\" + ("\n" if t[1] else "")))
    elif k == "seq":
        gen_from_tree(t[1], rng, groups, out); gen_from_tree(t[2], rng, groups, out)
    elif k == "alt":
        gen_from_tree(t[1] if rng.random() < 0.5 else t[2], rng, groups, out)
    elif k == "rep":
        lo, hi = t[2], t[3]
        n = rng.randint(lo, min(hi if hi is not None else lo + 3, lo + 3))
        for _ in range(n):
            gen_from_tree(t[1], rng, groups, out)
    elif k == "grp":
        a = len(out)
        gen_from_tree(t[2], rng, groups, out)
        groups[t[1]] = "".join(out[a:])
    elif k == "backref":
        out.append(groups.get(t[1], ""))
    elif k == "look":
        if t[1] and not t[2] and rng.random() < 0.7:      # positive look-ahead: make it true, then let later parts overwrite
            pass
    elif k == "bol":
        if out and not "".join(out).endswith("\n"):
            out.append("\n")
    elif k in ("eol", "eos"):
        if rng.random() < 0.5:
            out.append("\n")
    if top:
        return "".join(out)
