"""Runs a sequence of (config, document) conversions in ONE fresh interpreter and reports per step ok / exception / result hash.
stdin: JSON {"steps": [[cfg, doc], …], "src": path}; stdout: JSON list."""
import sys, json, hashlib, os


def main():
    job = json.load(sys.stdin)
    sys.path.insert(0, job["src"])
    sys.path.insert(0, os.path.dirname(os.path.abspath(__file__)))
    import configs
    mds = {}
    out = []
    for cfg, doc in job["steps"]:
        key = json.dumps(cfg, sort_keys=True)
        try:
            if key not in mds:
                mds[key] = configs.make(cfg)
            r = mds[key](doc)
            out.append({"status": "ok", "hash": hashlib.md5(json.dumps(r, sort_keys=True, default=str).encode()).hexdigest()})
        except RecursionError:
            out.append({"status": "exc", "exc": "RecursionError", "where": ""})
        except Exception as e:
            import traceback
            last = "?"
            for fs in traceback.extract_tb(e.__traceback__):
                if "/mistune/" in fs.filename:
                    last = "%s:%s" % (os.path.basename(fs.filename), fs.name)
            out.append({"status": "exc", "exc": type(e).__name__, "where": last, "msg": str(e)[:200]})
    json.dump(out, sys.stdout)


if __name__ == "__main__":
    main()
