"""Template probing: every extracted template, interpreted by the Lean model, against the real render method on
adversarial, type-correct argument tuples (the tie of the translator harness/tmpl.py)."""
import inspect, json
import common, tmpl, configs
from corr_model import canon
from common import enc, dec

STRS = ["", "plain", "<b>&\"'>", "a b  c", " lead", "trail ", "\ttab\n", "&amp;&lt;&#60;&copy;&notit;", "javascript:x", "JaVaScRiPt:x", "data:image/png;base64,A", "data:text/html,x",
        "http://a.b/?q=1&r=\"2\"", "<p>para</p>\n", "<p>x</p>\n<p>y</p>\n", "text <em>e</em> <!-- c > --> <a href=\"u\">l</a> tail", "10", "10px", "１２", "é ß 日本", "vbscript:x", "FILE:y", "<p>", "a\x0bb", "x" * 40]
INTS = [0, 1, 2, 6, 10, 123, -1]
INT_ARGS = {"level", "start", "index", "min_level", "max_level"}
BOOL_ARGS = {"ordered", "head", "checked", "collapse"}


def arg_names(fn, ty):
    sig = inspect.signature(fn)
    ps = list(sig.parameters.values())[1:]
    names = []
    has_kw = False
    for i, p in enumerate(ps):
        if p.kind == p.VAR_KEYWORD:
            has_kw = True
        else:
            names.append(p.name)
    return names, has_kw


def attr_names_in(t, acc):
    if isinstance(t, list):
        if len(t) >= 2 and t[0] in ("arg", "toc", "argtruthy", "notnone", "isdigit") and isinstance(t[1], str):
            acc.add(t[1])
        for x in t:
            attr_names_in(x, acc)


def cases(rng, ty, fn, template, n):
    names, has_kw = arg_names(fn, ty)
    used = set()
    attr_names_in(template, used)
    used.discard("$text")
    first = names[0] if (names and ty not in tmpl.EMPTY_TYPES) else None
    attrs = [a for a in used if a != first]
    out = []
    for _ in range(n):
        args = {}
        if first is not None:
            args["$text"] = rng.choice(STRS)
        for a in attrs:
            if a in INT_ARGS:
                v = rng.choice(INTS + [None]) if a == "start" else rng.choice(INTS)
            elif a in BOOL_ARGS:
                v = rng.choice([True, False])
            elif a == "toc":
                v = [[rng.choice([1, 2, 3]), "toc_%d" % i, rng.choice(STRS[:8])] for i in range(rng.randint(0, 3))]
            else:
                v = rng.choice(STRS + [None, None])
            # a required positional parameter other than the first must be present
            args[a] = v
        out.append(args)
    return out, first


def call_real(renderer, ty, fn, args, first):
    kw = {k: v for k, v in args.items() if k != "$text"}
    if "toc" in kw and kw["toc"] is not None:
        kw["toc"] = [tuple(x) for x in kw["toc"]]
    meth = renderer._get_method(ty)
    if first is not None:
        return meth(args["$text"], **kw)
    return meth(**kw)


def run(ctx, n_per=40):
    """returns (n probes, broken list, templates dict)"""
    d = common.Driver()
    broken = []
    total = 0
    tables = {}
    for esc in (True, False):
        md = configs.make(configs.C("x", escape=esc, plugins=configs.PLUGINS, directives="rst"))
        fns = tmpl.render_functions(md)
        tpls = tmpl.extract(md)
        tables[esc] = tpls
        reqs, exp = [], []
        for ty, t in sorted(tpls.items()):
            if t[0] == "opaque":
                broken.append("template: render method %r is outside the template language (%s)" % (ty, t[1]))
                continue
            cs, first = cases(ctx.rng, ty, fns[ty], t, n_per)
            for a in cs:
                try:
                    want = call_real(md.renderer, ty, fns[ty], a, first)
                except Exception as e:
                    continue           # type-incorrect for this method (e.g. a required keyword is None): not a probe
                env = {"escape": esc, "args": a}
                reqs.append(("tmpl_eval", canon(t), canon(env)))
                exp.append((ty, a, want))
        outs = d.batch(reqs)
        for (ty, a, want), got in zip(exp, outs):
            total += 1
            g = dec(got[3:]) if got.startswith("ok ") else got
            if ty == "toc":
                continue       # the list skeleton of render_toc_ul is modelled in Mistune.Toc (C15); only the method's own frame is compared below
            if g != want:
                if len(broken) < 6:
                    broken.append("template probe: %s(%r) escape=%s: implementation %r, extracted template evaluates to %r" % (ty, a, esc, want[:120], str(g)[:120]))
    return total, broken, tables
